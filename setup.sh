#!/bin/bash
# Builds the orchestrator from the sources in /verif (offline) and warms the
# Go build cache by building the instrumented worker once.
set -e
cd "$(dirname "$0")"
export GOFLAGS=-mod=mod GOPROXY=off GOSUMDB=off GOTOOLCHAIN=local CGO_ENABLED=0
mkdir -p bin evidence replays
go1.26.8 build -o bin/verif ./cmd/verif
bin/verif warm
