// Package instrument rewrites the non-test sources of gosrc.io/xmpp (and the
// lock-using part of gosrc.io/xmpp/stanza) for the deterministic simulator and
// writes a `go build -overlay` description. Nothing is written into the
// repository: the instrumented copies live in a scratch directory.
//
// The rewrite is textual (insertions at byte offsets found with go/ast and
// never containing a newline), so every original line keeps its line number
// and stacks / yield sites point into the real sources.
//
//	I1  simhook.Yield("<file>:<line>") before every statement
//	I2  import "sync" -> sync "gosrc.io/xmpp/simhook/simsync"
//	I3  net.DialTimeout / net.Dial -> simhook.DialTimeout / simhook.Dial
//	I4  defer simhook.Recover("<fn>") at the top of every go-statement target
package instrument

import (
	"encoding/json"
	"fmt"
	"go/ast"
	"go/parser"
	"go/token"
	"os"
	"path/filepath"
	"sort"
	"strconv"
	"strings"
)

const hookImport = "gosrc.io/xmpp/simhook"
const syncImport = "gosrc.io/xmpp/simhook/simsync"

// Stats describes what the instrumenter did (reported in the evidence).
type Stats struct {
	Files       int      `json:"files"`
	Yields      int      `json:"yields"`
	SyncImports int      `json:"sync_imports_rewritten"`
	Dials       int      `json:"dial_calls_redirected"`
	Selects     int      `json:"selects_made_deterministic"`
	GoTargets   []string `json:"go_targets"`
	Skipped     []string `json:"skipped_files"`
	Mode        string   `json:"mode"`
}

type insertion struct {
	off  int
	text string
	del  int // bytes of the original to drop at off
	ord  int
}

type fileJob struct {
	path string // absolute
	rel  string // relative to repo, used in sites
	src  []byte
	f    *ast.File
	fset *token.FileSet
	pkg  string
}

// Options selects the instrumentation depth. Full = yields before every
// statement; otherwise yields only at go-targets' entry and around
// lock/channel statements (fallback when the full rewrite does not build).
type Options struct {
	Full bool
}

// Build instruments repo into scratch and returns the overlay file path.
// overlaySrc is /verif/overlay_src (simhook, simsync, export file).
func Build(repo, scratch, overlaySrc string, opt Options) (string, *Stats, error) {
	st := &Stats{Mode: "full"}
	if !opt.Full {
		st.Mode = "reduced"
	}
	replace := map[string]string{}

	// hook packages: added to the module through the overlay only
	add := func(rel string) error {
		src := filepath.Join(overlaySrc, rel)
		if _, err := os.Stat(src); err != nil {
			return err
		}
		replace[filepath.Join(repo, rel)] = src
		return nil
	}
	for _, rel := range []string{"simhook/simhook.go", "simhook/simsync/simsync.go", "export_verif.go", "stanza/export_verif.go"} {
		if err := add(rel); err != nil {
			if strings.HasPrefix(rel, "stanza/") {
				continue
			}
			return "", nil, err
		}
	}

	for _, dir := range []string{"", "stanza"} {
		jobs, err := loadDir(repo, dir, st)
		if err != nil {
			return "", nil, err
		}
		targets := map[string]bool{}
		for _, j := range jobs {
			collectGoTargets(j, targets)
		}
		var names []string
		for n := range targets {
			names = append(names, n)
		}
		sort.Strings(names)
		for _, n := range names {
			st.GoTargets = append(st.GoTargets, filepath.Join(dir, n))
		}
		for _, j := range jobs {
			out, changed, err := rewrite(j, targets, opt, st)
			if err != nil {
				return "", nil, fmt.Errorf("%s: %v", j.rel, err)
			}
			if !changed {
				continue
			}
			dst := filepath.Join(scratch, "src", j.rel)
			if err := os.MkdirAll(filepath.Dir(dst), 0o755); err != nil {
				return "", nil, err
			}
			if err := os.WriteFile(dst, out, 0o644); err != nil {
				return "", nil, err
			}
			replace[j.path] = dst
			st.Files++
		}
	}

	ov := struct{ Replace map[string]string }{replace}
	b, _ := json.MarshalIndent(ov, "", " ")
	p := filepath.Join(scratch, "overlay.json")
	if err := os.WriteFile(p, b, 0o644); err != nil {
		return "", nil, err
	}
	return p, st, nil
}

func loadDir(repo, dir string, st *Stats) ([]*fileJob, error) {
	ents, err := os.ReadDir(filepath.Join(repo, dir))
	if err != nil {
		return nil, err
	}
	var jobs []*fileJob
	for _, e := range ents {
		n := e.Name()
		if e.IsDir() || !strings.HasSuffix(n, ".go") || strings.HasSuffix(n, "_test.go") {
			continue
		}
		if n == "export_verif.go" {
			continue
		}
		p := filepath.Join(repo, dir, n)
		src, err := os.ReadFile(p)
		if err != nil {
			return nil, err
		}
		fset := token.NewFileSet()
		f, err := parser.ParseFile(fset, p, src, parser.ParseComments)
		if err != nil {
			return nil, err
		}
		rel := filepath.Join(dir, n)
		skip := false
		usesSync := false
		for _, im := range f.Imports {
			v, _ := strconv.Unquote(im.Path.Value)
			if v == "testing" {
				skip = true
			}
			if v == "sync" {
				usesSync = true
			}
		}
		if hasBuildConstraint(f) {
			skip = true
		}
		if dir == "stanza" {
			// Codec files are goroutine-local computation: only the files that
			// share state between goroutines (they import sync) are
			// instrumented; the type registry is written only during package
			// initialisation and keeps its real lock.
			if !usesSync || n == "registry.go" {
				skip = true
			}
		}
		if skip {
			st.Skipped = append(st.Skipped, rel)
			continue
		}
		jobs = append(jobs, &fileJob{path: p, rel: rel, src: src, f: f, fset: fset, pkg: f.Name.Name})
	}
	return jobs, nil
}

func hasBuildConstraint(f *ast.File) bool {
	for _, cg := range f.Comments {
		if cg.Pos() > f.Package {
			break
		}
		for _, c := range cg.List {
			if strings.HasPrefix(c.Text, "//go:build") || strings.HasPrefix(c.Text, "// +build") {
				return true
			}
		}
	}
	return false
}

func collectGoTargets(j *fileJob, targets map[string]bool) {
	ast.Inspect(j.f, func(n ast.Node) bool {
		g, ok := n.(*ast.GoStmt)
		if !ok {
			return true
		}
		switch fn := g.Call.Fun.(type) {
		case *ast.Ident:
			targets[fn.Name] = true
		case *ast.SelectorExpr:
			targets[fn.Sel.Name] = true
		}
		return true
	})
}

func rewrite(j *fileJob, targets map[string]bool, opt Options, st *Stats) ([]byte, bool, error) {
	var ins []insertion
	ord := 0
	addIns := func(pos token.Pos, text string, del int) {
		ord++
		ins = append(ins, insertion{off: j.fset.Position(pos).Offset, text: text, del: del, ord: ord})
	}
	usesHook := false
	yield := func(pos token.Pos) {
		p := j.fset.Position(pos)
		addIns(pos, fmt.Sprintf("simhook.Yield(%q); ", fmt.Sprintf("%s:%d", j.rel, p.Line)), 0)
		st.Yields++
		usesHook = true
	}

	// I2 / detect net import
	importsNet := false
	for _, im := range j.f.Imports {
		v, _ := strconv.Unquote(im.Path.Value)
		if v == "net" && im.Name == nil {
			importsNet = true
		}
		if v == "sync" {
			text := strconv.Quote(syncImport)
			if im.Name == nil {
				text = "sync " + text
			}
			addIns(im.Path.Pos(), text, len(im.Path.Value))
			st.SyncImports++
		}
	}

	wantStmt := func(s ast.Stmt) bool {
		if opt.Full {
			return true
		}
		// reduced mode: only statements that touch channels, locks or go
		found := false
		ast.Inspect(s, func(n ast.Node) bool {
			switch x := n.(type) {
			case *ast.GoStmt, *ast.SendStmt, *ast.SelectStmt:
				found = true
			case *ast.UnaryExpr:
				if x.Op == token.ARROW {
					found = true
				}
			case *ast.FuncLit:
				return false
			}
			return !found
		})
		return found
	}

	instrList := func(list []ast.Stmt) {
		for _, s := range list {
			switch s.(type) {
			case *ast.CaseClause, *ast.CommClause, *ast.EmptyStmt:
				continue
			}
			if wantStmt(s) {
				yield(s.Pos())
			}
		}
	}

	var goLits []*ast.FuncLit
	ast.Inspect(j.f, func(n ast.Node) bool {
		switch x := n.(type) {
		case *ast.FuncDecl:
			if x.Body == nil {
				return false
			}
			if x.Name.Name == "init" && x.Recv == nil {
				return false
			}
			if targets[x.Name.Name] {
				addIns(x.Body.Lbrace+1, fmt.Sprintf(" defer simhook.Recover(%q); ", x.Name.Name), 0)
				usesHook = true
			}
		case *ast.GoStmt:
			if fl, ok := x.Call.Fun.(*ast.FuncLit); ok {
				goLits = append(goLits, fl)
				p := j.fset.Position(fl.Pos())
				addIns(fl.Body.Lbrace+1, fmt.Sprintf(" defer simhook.Recover(%q); ", fmt.Sprintf("func@%s:%d", j.rel, p.Line)), 0)
				usesHook = true
			}
		case *ast.SelectStmt:
			// A select with several ready cases is decided by the runtime's own
			// randomness, which no tape controls. Poll the cases once in textual
			// order (a legal choice) before blocking on the original statement.
			var clauses []*ast.CommClause
			hasDefault := false
			for _, c := range x.Body.List {
				cc := c.(*ast.CommClause)
				if cc.Comm == nil {
					hasDefault = true
				}
				clauses = append(clauses, cc)
			}
			if !hasDefault && len(clauses) >= 2 {
				var pre strings.Builder
				closing := ""
				// The other tie-break order is a legal choice too: when the run says so
				// (one choice per run, part of the schedule tape) the cases are polled in
				// reverse textual order, in front of a verbatim copy of the statement.
				st.Selects++
				pre.WriteString("if simhook.SelectReverse() { ")
				revClosing := ""
				for k := len(clauses) - 1; k >= 0; k-- {
					cc := clauses[k]
					a := j.fset.Position(cc.Pos()).Offset
					b := j.fset.Position(cc.End()).Offset
					pre.WriteString("select { " + string(j.src[a:b]) + "\ndefault: ")
					revClosing += " }"
				}
				pre.WriteString(string(j.src[j.fset.Position(x.Pos()).Offset:j.fset.Position(x.End()).Offset]) + revClosing + " } else { ")
				closing = " }"
				usesHook = true
				for _, cc := range clauses {
					a := j.fset.Position(cc.Pos()).Offset
					b := j.fset.Position(cc.End()).Offset
					pre.WriteString("select { " + string(j.src[a:b]) + "\ndefault: ")
					closing += " }"
				}
				line := j.fset.Position(x.Pos()).Line
				pre.WriteString(fmt.Sprintf("\n//line %s:%d\n", j.path, line))
				addIns(x.Pos(), pre.String(), 0)
				addIns(x.End(), closing, 0)
			}
		case *ast.BlockStmt:
			instrList(x.List)
		case *ast.CaseClause:
			instrList(x.Body)
		case *ast.CommClause:
			instrList(x.Body)
		case *ast.CallExpr:
			if sel, ok := x.Fun.(*ast.SelectorExpr); ok {
				if id, ok := sel.X.(*ast.Ident); ok && id.Name == "net" && importsNet && id.Obj == nil {
					if sel.Sel.Name == "DialTimeout" || sel.Sel.Name == "Dial" {
						addIns(id.Pos(), "simhook", len("net"))
						st.Dials++
						usesHook = true
					}
				}
			}
		}
		return true
	})

	if len(ins) == 0 {
		return nil, false, nil
	}
	if usesHook {
		// same line as the package clause, so no line moves
		end := j.f.Name.End()
		addIns(end, fmt.Sprintf("; import %q", hookImport), 0)
	}

	sort.SliceStable(ins, func(a, b int) bool {
		if ins[a].off != ins[b].off {
			return ins[a].off < ins[b].off
		}
		return ins[a].ord < ins[b].ord
	})
	var out []byte
	last := 0
	for _, in := range ins {
		if in.off < last {
			return nil, false, fmt.Errorf("overlapping rewrite at offset %d", in.off)
		}
		out = append(out, j.src[last:in.off]...)
		out = append(out, in.text...)
		last = in.off + in.del
	}
	out = append(out, j.src[last:]...)
	if importsNet && st.Dials > 0 {
		out = append(out, "\nvar _ net.Conn\n"...)
	}
	return out, true, nil
}
