module verif

go 1.26

godebug randseednop=0

require (
	gosrc.io/xmpp v0.0.0
	nhooyr.io/websocket v1.6.5
)

require (
	github.com/google/uuid v1.1.1 // indirect
	golang.org/x/xerrors v0.0.0-20190717185122-a985d3407aa7 // indirect
)

replace gosrc.io/xmpp => /repo
