package sim

import (
	"encoding/json"
	"fmt"
	"math/rand"
	"os"
	"runtime"
	"sort"
	"strconv"
	"strings"
	"sync/atomic"
	"testing"
	"testing/cryptotest"
	"testing/synctest"
	"time"
	"verif/proto"
)

const EngineVersion = proto.EngineVersion

type (
	Draw       = proto.Draw
	TapeRec    = proto.TapeRec
	RunResult  = proto.RunResult
	WorkerArgs = proto.WorkerArgs
	WorkerOut  = proto.WorkerOut
	PanicRec   = proto.PanicRec
	Violation  = proto.Violation
	Strategy   = proto.Strategy
)

type RunOpt struct {
	Tier  string
	Avoid map[string]bool // known-finding triggers the generator must not produce (batch A)
}

// Avoiding reports whether the trigger of a known finding must be avoided.
func (o RunOpt) Avoiding(trigger string) bool { return o.Avoid[trigger] }

type RunInfo struct {
	Scenario   interface{}
	Nontrivial bool
	// Triggers lists known-finding triggers present in this scenario/history.
	Triggers []string
}

type PropDef struct {
	ID  string
	Run func(e *Engine, g G, o RunOpt) RunInfo
	// Components lists which parts ran real code vs stubs (for the evidence).
	Real, Stub []string
	Rule       string
	// Reach lists probes every batch must hit (see proto.PropMeta.Reach).
	Reach []string
}

var Props = map[string]*PropDef{}

func register(p *PropDef) { Props[p.ID] = p }

var watchdogDeadline atomic.Int64

func startWatchdog() {
	go func() {
		for {
			time.Sleep(500 * time.Millisecond)
			d := watchdogDeadline.Load()
			if d != 0 && time.Now().UnixNano() > d {
				buf := make([]byte, 8<<20)
				n := runtime.Stack(buf, true)
				fmt.Fprintf(os.Stderr, "WATCHDOG: run exceeded its wall-clock budget\n%s\n", buf[:n])
				os.Exit(3)
			}
		}
	}()
}

// RunOne executes one simulated run of a property under the given tape.
func RunOne(t *testing.T, p *PropDef, tape *Tape, o RunOpt, keepLog bool) *RunResult {
	res := &RunResult{Seed: tape.Seed}
	// every consumer of cryptographic entropy (crypto/tls on both ends, also
	// through a tls.Config the library builds itself) reads one seeded stream
	cryptotest.SetGlobalRandom(t, tape.Seed)
	watchdogDeadline.Store(time.Now().Add(60 * time.Second).UnixNano())
	defer watchdogDeadline.Store(0)
	func() {
		defer func() {
			if r := recover(); r != nil {
				msg := fmt.Sprint(r)
				if !strings.Contains(msg, "deadlock") {
					res.Infra = "panic outside the bubble: " + msg
				}
			}
		}()
		synctest.Test(t, func(t *testing.T) {
			e := NewEngine(tape)
			rand.Seed(int64(tape.Seed))
			var info RunInfo
			func() {
				defer func() {
					if r := recover(); r != nil {
						buf := make([]byte, 16384)
						buf = buf[:runtime.Stack(buf, false)]
						res.Infra = fmt.Sprintf("harness panic: %v\n%s", r, buf)
					}
				}()
				info = p.Run(e, G{tape.Gen}, o)
			}()
			res.Steps = e.Steps
			res.SimNs = int64(e.Now())
			res.Events = len(e.Log)
			res.LogHash = e.LogHash()
			res.SchedHash = e.SchedHash()
			res.Faults = e.Faults
			res.Probes = e.Probes
			res.Violations = e.Violations
			res.Stuck = e.Stuck
			res.Nontrivial = info.Nontrivial
			res.Triggers = info.Triggers
			res.Strategy = e.strat
			res.Panics = e.Panics
			if info.Scenario != nil {
				b, _ := json.Marshal(info.Scenario)
				res.Scenario = b
				res.ScenHash = hashString(string(b))
			}
			if tape.Gen.Err != nil {
				res.TapeErr = tape.Gen.Err.Error()
			} else if tape.Run.Err != nil {
				res.TapeErr = tape.Run.Err.Error()
			}
			if keepLog || len(e.Violations) > 0 {
				for _, ev := range e.Log {
					res.Log = append(res.Log, ev.String())
				}
			}
			// teardown: release everything, let timers run out
			e.Abort()
			synctest.Wait()
			time.Sleep(48 * time.Hour)
			synctest.Wait()
		})
	}()
	res.Tape = &TapeRec{Property: p.ID, Engine: EngineVersion, Seed: tape.Seed, Tier: o.Tier, Gen: tape.Gen.Rec, Run: tape.Run.Rec}
	for k := range o.Avoid {
		res.Tape.Avoid = append(res.Tape.Avoid, k)
	}
	sort.Strings(res.Tape.Avoid)
	return res
}

// ---------------------------------------------------------------------------

func avoidMap(a []string) map[string]bool {
	m := map[string]bool{}
	for _, s := range a {
		m[s] = true
	}
	return m
}

// WorkerMain is the entry point of the worker test binary.
func WorkerMain(t *testing.T) {
	raw := os.Getenv("VERIF_WORKER")
	if raw == "" {
		t.Skip("VERIF_WORKER not set")
	}
	var a WorkerArgs
	if err := json.Unmarshal([]byte(raw), &a); err != nil {
		fmt.Fprintln(os.Stderr, "bad VERIF_WORKER:", err)
		os.Exit(2)
	}
	p := Props[a.Prop]
	if p == nil {
		fmt.Fprintln(os.Stderr, "unknown property", a.Prop)
		os.Exit(2)
	}
	startWatchdog()
	out := &WorkerOut{Meta: proto.PropMeta{Rule: p.Rule, Real: p.Real, Stub: p.Stub, Reach: p.Reach}, Args: a, Faults: map[string]int{}, Probes: map[string]int{}, Strategies: map[string]int{}, Triggers: map[string]int{}}
	opt := RunOpt{Tier: a.Tier, Avoid: avoidMap(a.Avoid)}
	start := time.Now()
	switch a.Mode {
	case "explore", "determinism":
		if a.Stride <= 0 {
			a.Stride = 1
		}
		seenD := map[uint64]bool{}
		seenS := map[uint64]bool{}
		if a.Mode == "determinism" {
			out.Hashes = map[string]uint64{}
		}
		memLimit := uint64(1200)
		if v, err := strconv.Atoi(os.Getenv("VERIF_WORKER_MEM_MB")); err == nil && v > 0 {
			memLimit = uint64(v)
		}
		for run := a.From; run < a.To; run += a.Stride {
			if a.WallS > 0 && time.Since(start).Seconds() > a.WallS {
				break
			}
			if out.Runs > 0 && out.Runs%64 == 0 && a.Mode == "explore" {
				var ms runtime.MemStats
				runtime.ReadMemStats(&ms)
				if ms.Sys>>20 > memLimit {
					out.NextFrom = run
					break
				}
			}
			journal(a.Out, run)
			tape := NewTape(RunSeed(a.Seed, a.Prop, run))
			res := RunOne(t, p, tape, opt, len(out.Samples) < a.Samples)
			res.Run = run
			out.Runs++
			out.Steps += int64(res.Steps)
			if res.Steps > out.MaxRunSteps {
				out.MaxRunSteps = res.Steps
			}
			out.SimNs += float64(res.SimNs)
			out.Events += int64(res.Events)
			for k, v := range res.Faults {
				out.Faults[k] += v
			}
			for k, v := range res.Probes {
				out.Probes[k] += v
			}
			for _, k := range res.Triggers {
				out.Triggers[k]++
			}
			out.Strategies[res.Strategy.Kind]++
			if out.Hashes != nil {
				out.Hashes[fmt.Sprint(run)] = res.LogHash ^ mix(uint64(res.Steps), res.SchedHash)
			}
			if res.Infra != "" {
				out.Infra = append(out.Infra, fmt.Sprintf("run %d: %s", run, res.Infra))
			}
			if res.Nontrivial {
				out.Nontrivial++
				h := mix(res.ScenHash, res.SchedHash)
				if !seenD[h] {
					seenD[h] = true
					out.Distinct = append(out.Distinct, h)
				}
				if !seenS[res.ScenHash] {
					seenS[res.ScenHash] = true
					out.DistinctScen = append(out.DistinctScen, res.ScenHash)
				}
			}
			if len(res.Violations) > 0 {
				if len(out.Violating) < max(a.MaxViol, 1) {
					out.Violating = append(out.Violating, res)
				} else {
					// keep counting classes without the bulky payload
					lite := &RunResult{Run: res.Run, Seed: res.Seed, Violations: res.Violations, Triggers: res.Triggers}
					out.Violating = append(out.Violating, lite)
				}
			} else if len(out.Samples) < a.Samples {
				if os.Getenv("VERIF_KEEP_TAPE") == "" {
					res.Tape = nil
				}
				if len(res.Log) > 120 {
					res.Log = append(res.Log[:120], fmt.Sprintf("… %d more events", len(res.Log)-120))
				}
				out.Samples = append(out.Samples, res)
			}
		}
	case "replay":
		tr := readTape(a.TapeFile)
		opt.Tier = tr.Tier
		opt.Avoid = avoidMap(tr.Avoid)
		tape := ReplayTape(tr.Seed, tr.Gen, tr.Run, true)
		res := RunOne(t, p, tape, opt, true)
		out.Runs = 1
		out.Replayed = res
	case "shrink":
		tr := readTape(a.TapeFile)
		opt.Tier = tr.Tier
		opt.Avoid = avoidMap(tr.Avoid)
		best, n := Shrink(t, p, tr, opt, a.Target, a.WallS)
		out.ShrinkRuns = n
		out.Replayed = best
	}
	out.WallS = time.Since(start).Seconds()
	{
		var ms runtime.MemStats
		runtime.ReadMemStats(&ms)
		out.SysMB = int(ms.Sys >> 20)
		out.Goroutines = runtime.NumGoroutine()
	}
	b, _ := json.Marshal(out)
	if err := os.WriteFile(a.Out, b, 0o644); err != nil {
		fmt.Fprintln(os.Stderr, err)
		os.Exit(2)
	}
}

func journal(out string, run int) {
	os.WriteFile(out+".journal", []byte(fmt.Sprint(run)), 0o644)
}

func readTape(path string) *TapeRec {
	b, err := os.ReadFile(path)
	if err != nil {
		fmt.Fprintln(os.Stderr, err)
		os.Exit(2)
	}
	// accept either a bare tape or a replay file with a "tape" member
	var wrap struct {
		Tape *TapeRec `json:"tape"`
	}
	if json.Unmarshal(b, &wrap) == nil && wrap.Tape != nil {
		return wrap.Tape
	}
	var tr TapeRec
	if err := json.Unmarshal(b, &tr); err != nil {
		fmt.Fprintln(os.Stderr, err)
		os.Exit(2)
	}
	return &tr
}

// Shrink minimises a violating tape while the same violation signature
// persists: delete chunks, zero entries, halve values, on both streams, in
// lenient replay mode; the survivor is re-recorded in exact form.
func Shrink(t *testing.T, p *PropDef, tr *TapeRec, opt RunOpt, target string, wallS float64) (*RunResult, int) {
	start := time.Now()
	runs := 0
	try := func(gen, run []Draw) *RunResult {
		runs++
		tape := ReplayTape(tr.Seed, gen, run, false)
		res := RunOne(t, p, tape, opt, false)
		if res.Infra != "" {
			return nil
		}
		for _, v := range res.Violations {
			if v.Prop+":"+v.Class == target {
				return res
			}
		}
		return nil
	}
	gen, run := tr.Gen, tr.Run
	best := try(gen, run)
	if best == nil {
		return nil, runs
	}
	gen, run = best.Tape.Gen, best.Tape.Run
	budget := func() bool {
		return runs < 2000 && (wallS <= 0 || time.Since(start).Seconds() < wallS)
	}
	improved := true
	for improved && budget() {
		improved = false
		for si := 0; si < 2; si++ {
			cur := func() []Draw {
				if si == 0 {
					return gen
				}
				return run
			}
			apply := func(c []Draw) *RunResult {
				if si == 0 {
					return try(c, run)
				}
				return try(gen, c)
			}
			accept := func(r *RunResult) {
				best = r
				gen, run = r.Tape.Gen, r.Tape.Run
				improved = true
			}
			// 1. truncate the tail (missing entries read as 0)
			for sz := len(cur()) / 2; sz >= 1 && budget(); sz /= 2 {
				for budget() && len(cur()) > 0 {
					c := cur()
					k := len(c) - sz
					if k < 0 {
						break
					}
					cand := append([]Draw(nil), c[:k]...)
					if r := apply(cand); r != nil && len(r.Tape.Gen)+len(r.Tape.Run) < len(gen)+len(run) {
						accept(r)
					} else {
						break
					}
				}
			}
			// 2. delete chunks
			for sz := len(cur()) / 2; sz >= 1 && budget(); sz /= 2 {
				for i := 0; i+sz <= len(cur()) && budget(); {
					c := cur()
					cand := append(append([]Draw(nil), c[:i]...), c[i+sz:]...)
					if r := apply(cand); r != nil && len(r.Tape.Gen)+len(r.Tape.Run) <= len(gen)+len(run) && (len(r.Tape.Gen)+len(r.Tape.Run) < len(gen)+len(run) || sumV(r.Tape) < sumV(&TapeRec{Gen: gen, Run: run})) {
						accept(r)
					} else {
						i += sz
					}
				}
			}
			// 3. zero / halve values
			for i := 0; i < len(cur()) && budget(); i++ {
				c := cur()
				if c[i].V == 0 {
					continue
				}
				for _, nv := range []int{0, c[i].V / 2, c[i].V - 1} {
					if nv >= c[i].V {
						continue
					}
					cand := append([]Draw(nil), c...)
					cand[i].V = nv
					if r := apply(cand); r != nil && sumV(r.Tape) < sumV(&TapeRec{Gen: gen, Run: run}) {
						accept(r)
						break
					}
				}
			}
		}
	}
	// final exact re-run with the log kept
	tape := ReplayTape(tr.Seed, gen, run, true)
	final := RunOne(t, p, tape, opt, true)
	runs++
	ok := false
	for _, v := range final.Violations {
		if v.Prop+":"+v.Class == target {
			ok = true
		}
	}
	if !ok || final.TapeErr != "" {
		return best, runs
	}
	return final, runs
}

func sumV(t *TapeRec) int {
	s := 0
	for _, d := range t.Gen {
		s += d.V
	}
	for _, d := range t.Run {
		s += d.V
	}
	return s
}
