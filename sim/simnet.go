package sim

import (
	"fmt"
	"io"
	"net"
	"os"
	"sort"
	"strings"
	"sync"
	"syscall"
	"time"
)

// Simulated network: in-memory, in-order, loss-free byte streams (this is
// TCP) whose delivery, segmentation, latency, cuts and write failures are
// decided by the scheduler from the tape.

type SegMode int

const (
	SegWhole  SegMode = iota // deliver everything that is ready
	SegRandom                // deliver 1..ready bytes
	SegByte                  // one byte at a time
	SegSmall                 // 1..16 bytes
)

type Network struct {
	e        *Engine
	pipes    []*Pipe
	Listener func(p *Pipe)    // called (on the dialling task) for every accepted connection
	DialPlan func(n int) Dial // outcome of the n-th dial (0-based)
	Dials    int
	DialLog  []DialRec
	// defaults for new pipes
	Latency time.Duration
	Seg     SegMode
}

type WriteRec struct {
	Start time.Duration // when the Write call began (under back-pressure it may end much later)
	At    time.Duration
	N     int
	Len   int
	Err   bool
	KA    bool
}

type DialRec struct {
	At      time.Duration
	Addr    string
	Outcome string
}

type Dial int

const (
	DialAccept Dial = iota
	DialRefuse
	DialTimeout
	DialAcceptReset
)

func (d Dial) String() string {
	return [...]string{"accept", "refuse", "timeout", "accept-then-reset"}[d]
}

type Pipe struct {
	ID  int
	Cli *End // the dialling side
	Srv *End
	net *Network
}

type mark struct {
	end   int64 // absolute stream offset (exclusive) of the bytes written at...
	ready time.Time
}

// End is one side of a connection; it implements net.Conn.
type End struct {
	pipe *Pipe
	name string
	peer *End
	e    *Engine

	mu       sync.Mutex
	rbuf     []byte
	inflight []byte // written by the peer, not yet delivered to us
	marks    []mark
	inBase   int64 // stream offset of inflight[0]
	finSet   bool  // peer closed / fault: a terminal condition follows the in-flight bytes
	finErr   error // io.EOF or a reset error
	finReady time.Time
	rTerm    error         // delivered terminal condition
	TermAt   time.Duration // when it was delivered
	// Blackhole: the link has gone dark in this direction - what is written from now on is accepted
	// by the local kernel and never arrives (no error, no FIN, no RST)
	Blackhole bool
	closed    bool
	waiting   bool
	readWake  chan struct{}

	// Incoming cut: deliver only bytes below CutAt, then CutErr.
	CutAt      int64 // -1: none
	CutErr     error
	CutDiscard bool // RST variant: unread delivered bytes are discarded too

	Stall time.Time // no delivery to this end before this instant

	// RecvWindow > 0: flow control. A writer blocks while this end already holds that many
	// undelivered + unread bytes (a slow or stalled reader exerts back-pressure, as TCP does).
	RecvWindow  int
	writerWake  chan struct{}
	wlock       chan struct{} // held for the duration of a Write under flow control
	wdl         time.Time     // write deadline
	bpCounted   bool
	writersWait int
	deliveries  int

	Latency time.Duration
	Seg     SegMode

	// outgoing write faults
	FailKeepaliveAt int // the k-th lone-newline write fails; 0: never
	kaSeen          int
	FailWriteAt     int // the k-th Write (1-based) fails; 0: never
	FailPartial     int // bytes accepted by the failing write
	writeBroken     bool
	Writes          int
	peerGoneWrite   int

	KeepaliveWrites int // writes of a lone "\n" (or whatever IsKeepalive recognises)
	IsKeepalive     func(p []byte) bool
	WriteLog        []WriteRec
	TrackWrites     bool
	TotalWritten    int64 // bytes accepted from local writers
	TotalDelivered  int64 // bytes moved into rbuf
	TotalRead       int64 // bytes returned by Read
	OnWrite         func(p []byte, n int, err error)
	OnRead          func(p []byte, err error)
	OnClose         func()
}

var errClosed = net.ErrClosed // the sentinel the real net package wraps

func newNetwork(e *Engine) *Network { return &Network{e: e} }

func (n *Network) newPipe() *Pipe {
	p := &Pipe{ID: len(n.pipes), net: n}
	mk := func(side string) *End {
		return &End{pipe: p, name: fmt.Sprintf("c%d.%s", p.ID, side), e: n.e, readWake: make(chan struct{}, 1), writerWake: make(chan struct{}, 1), wlock: make(chan struct{}, 1),
			CutAt: -1, Latency: n.Latency, Seg: n.Seg}
	}
	p.Cli, p.Srv = mk("cli"), mk("srv")
	// segmentation matters for what the library reads; the harness' own
	// server reads whole segments
	p.Srv.Seg = SegWhole
	p.Cli.peer, p.Srv.peer = p.Srv, p.Cli
	n.pipes = append(n.pipes, p)
	return p
}

func (n *Network) Pipes() []*Pipe { return n.pipes }

// dial is installed as simhook.DialFn. It runs on the dialling task.
func (n *Network) dial(network, addr string, timeout time.Duration) (net.Conn, error) {
	idx := n.Dials
	n.Dials++
	out := DialAccept
	if n.DialPlan != nil {
		out = n.DialPlan(idx)
	}
	n.DialLog = append(n.DialLog, DialRec{At: n.e.Now(), Addr: addr, Outcome: out.String()})
	n.e.Logf("net.dial", "#%d %s %s -> %s", idx, network, addr, out)
	opErr := func(e error) error {
		return &net.OpError{Op: "dial", Net: network, Err: e}
	}
	host, _, err := net.SplitHostPort(addr)
	if err != nil {
		// the real dialer rejects what is not host:port before it touches the network
		n.e.Logf("net.dial", "address does not split: %v", err)
		return nil, opErr(err)
	}
	if net.ParseIP(host) == nil && strings.ContainsAny(host, "/:@ ") {
		// ... and no resolver knows a host of that name
		n.e.Logf("net.dial", "no such host %q", host)
		return nil, opErr(&net.DNSError{Err: "no such host", Name: host, IsNotFound: true})
	}
	switch out {
	case DialRefuse:
		n.e.Fault("dial.refused")
		return nil, opErr(os.NewSyscallError("connect", syscall.ECONNREFUSED))
	case DialTimeout:
		n.e.Fault("dial.timeout")
		if timeout <= 0 {
			timeout = 2 * time.Minute
		}
		time.Sleep(timeout)
		return nil, opErr(timeoutError{})
	}
	p := n.newPipe()
	if out == DialAcceptReset {
		n.e.Fault("dial.accept_reset")
		p.Srv.closed = true
		p.Cli.finSet = true
		p.Cli.finErr = resetErr("read")
		p.Cli.finReady = time.Now()
		return p.Cli, nil
	}
	if n.Listener != nil {
		n.Listener(p)
	}
	return p.Cli, nil
}

type timeoutError struct{}

func (timeoutError) Error() string   { return "i/o timeout" }
func (timeoutError) Timeout() bool   { return true }
func (timeoutError) Temporary() bool { return true }

func resetErr(op string) error {
	return &net.OpError{Op: op, Net: "tcp", Err: os.NewSyscallError(op, syscall.ECONNRESET)}
}

// ---------------------------------------------------------------------------
// net.Conn

func (c *End) Read(p []byte) (int, error) {
	for {
		c.mu.Lock()
		if c.closed {
			c.mu.Unlock()
			return 0, &net.OpError{Op: "read", Net: "tcp", Err: errClosed}
		}
		if len(c.rbuf) > 0 && len(p) > 0 {
			n := copy(p, c.rbuf)
			c.rbuf = c.rbuf[n:]
			c.TotalRead += int64(n)
			c.freeWindow()
			f := c.OnRead
			c.mu.Unlock()
			if f != nil {
				f(p[:n], nil)
			}
			return n, nil
		}
		if c.rTerm != nil {
			err := c.rTerm
			f := c.OnRead
			c.mu.Unlock()
			if f != nil {
				f(nil, err)
			}
			return 0, err
		}
		if len(p) == 0 {
			c.mu.Unlock()
			return 0, nil
		}
		c.waiting = true
		c.mu.Unlock()
		<-c.readWake
	}
}

func (c *End) Write(p []byte) (int, error) {
	began := c.e.Now()
	windowed := false
	c.peer.mu.Lock()
	windowed = c.peer.RecvWindow > 0
	c.peer.mu.Unlock()
	var n int
	var err error
	if !windowed {
		c.mu.Lock()
		n, err = c.writeLocked(p, false)
	} else {
		// Flow control: like the kernel, accept what fits into the peer's window and block
		// for the rest; like the net package, keep other writers of this connection out
		// until the whole call is over; honour the write deadline.
		if err = c.lockWrite(); err == nil {
			c.bpCounted = false
			for {
				var room int
				room, err = c.waitRoom(len(p) - n)
				if err != nil {
					break
				}
				c.mu.Lock()
				var k int
				k, err = c.writeLocked(p[n:n+room], n > 0)
				c.mu.Unlock()
				n += k
				if err != nil || n == len(p) {
					break
				}
			}
			<-c.wlock
		}
		c.mu.Lock()
	}
	defer c.mu.Unlock()
	ka := c.isKA(p)
	if ka {
		c.KeepaliveWrites++
	}
	if c.TrackWrites {
		c.WriteLog = append(c.WriteLog, WriteRec{Start: began, At: c.e.Now(), N: n, Len: len(p), Err: err != nil, KA: ka})
	}
	if c.OnWrite != nil {
		c.OnWrite(p, n, err)
	}
	return n, err
}

// lockWrite serialises the writers of one connection (a channel, so that waiting blocks durably).
func (c *End) lockWrite() error {
	c.wlock <- struct{}{}
	return nil
}

// writeLocked hands p to the network. cont: p continues a write call whose first part was
// already accepted (not a new write for the fault counters). c.mu held.
func (c *End) writeLocked(p []byte, cont bool) (int, error) {
	if c.closed {
		return 0, &net.OpError{Op: "write", Net: "tcp", Err: errClosed}
	}
	if !cont {
		c.Writes++
	}
	if c.finSet && c.finErr != nil && c.finErr != io.EOF && !time.Now().Before(c.finReady) {
		// the peer's RST has reached this host (whether or not anybody reads): writes fail at once
		c.writeBroken = true
		return 0, &net.OpError{Op: "write", Net: "tcp", Err: os.NewSyscallError("write", syscall.ECONNRESET)}
	}
	if c.writeBroken {
		return 0, &net.OpError{Op: "write", Net: "tcp", Err: os.NewSyscallError("write", syscall.EPIPE)}
	}
	isKA := !cont && c.isKA(p)
	if isKA {
		c.kaSeen++
	}
	if !cont && (c.FailWriteAt > 0 && c.Writes == c.FailWriteAt) || (isKA && c.FailKeepaliveAt > 0 && c.kaSeen == c.FailKeepaliveAt) {
		// A failed socket write is terminal for the connection, as in TCP.
		c.writeBroken = true
		c.e.Fault("conn.write_error")
		n := c.FailPartial
		if n > len(p) {
			n = len(p)
		}
		if n > 0 {
			c.push(p[:n])
		}
		return n, &net.OpError{Op: "write", Net: "tcp", Err: os.NewSyscallError("write", syscall.ECONNRESET)}
	}
	peer := c.peer
	peer.mu.Lock()
	gone := peer.closed
	peer.mu.Unlock()
	if gone {
		// The first write after the peer went away is accepted by the kernel
		// (and answered with RST); later ones fail.
		c.peerGoneWrite++
		if c.peerGoneWrite > 1 {
			return 0, &net.OpError{Op: "write", Net: "tcp", Err: os.NewSyscallError("write", syscall.EPIPE)}
		}
		c.TotalWritten += int64(len(p))
		return len(p), nil
	}
	if c.Blackhole {
		c.TotalWritten += int64(len(p))
		return len(p), nil
	}
	c.push(p)
	return len(p), nil
}

// waitRoom blocks the writer while the peer's receive window is full and returns how many of
// the n bytes may be handed over now. A write deadline that passes meanwhile ends the wait.
func (c *End) waitRoom(n int) (int, error) {
	peer := c.peer
	first := true
	for {
		peer.mu.Lock()
		w := peer.RecvWindow
		held := len(peer.inflight) + len(peer.rbuf)
		gone := peer.closed || peer.rTerm != nil
		room := n
		if w > 0 && !gone && w-held < n {
			room = w - held
		}
		if room > 0 {
			if !first {
				peer.writersWait--
			}
			peer.mu.Unlock()
			return room, nil
		}
		if first {
			peer.writersWait++
			first = false
			if !c.bpCounted {
				c.bpCounted = true
				c.e.Fault("conn.writer_blocked_by_backpressure")
			}
		}
		peer.mu.Unlock()
		c.mu.Lock()
		closed := c.closed
		dl := c.wdl
		c.mu.Unlock()
		fail := func(err error) (int, error) {
			peer.mu.Lock()
			peer.writersWait--
			peer.mu.Unlock()
			return 0, &net.OpError{Op: "write", Net: "tcp", Err: err}
		}
		if closed {
			return fail(errClosed)
		}
		if dl.IsZero() {
			<-peer.writerWake
			continue
		}
		d := time.Until(dl)
		if d <= 0 {
			c.e.Fault("conn.write_deadline_exceeded")
			return fail(timeoutError{})
		}
		tm := time.NewTimer(d)
		select {
		case <-peer.writerWake:
			tm.Stop()
		case <-tm.C:
		}
	}
}

// freeWindow wakes blocked writers after this end consumed data or died. c.mu held.
func (c *End) freeWindow() {
	if c.writersWait > 0 {
		select {
		case c.writerWake <- struct{}{}:
		default:
		}
	}
}

// push appends to the peer's in-flight queue. c.mu held.
func (c *End) push(p []byte) {
	peer := c.peer
	peer.mu.Lock()
	peer.inflight = append(peer.inflight, p...)
	end := peer.inBase + int64(len(peer.inflight))
	peer.marks = append(peer.marks, mark{end: end, ready: time.Now().Add(peer.Latency)})
	peer.mu.Unlock()
	c.TotalWritten += int64(len(p))
}

func (c *End) isKA(p []byte) bool {
	if c.IsKeepalive != nil {
		return c.IsKeepalive(p)
	}
	return len(p) == 1 && p[0] == '\n'
}

// WSPing recognises a WebSocket ping frame written in one piece.
func WSPing(p []byte) bool { return len(p) >= 2 && p[0] == 0x89 }

func (c *End) Close() error {
	c.mu.Lock()
	if c.closed {
		c.mu.Unlock()
		return &net.OpError{Op: "close", Net: "tcp", Err: errClosed}
	}
	c.closed = true
	w := c.waiting
	c.waiting = false
	f := c.OnClose
	c.freeWindow()
	c.mu.Unlock()
	// a writer of ours blocked on the peer's window must notice that we are closed
	c.peer.mu.Lock()
	c.peer.freeWindow()
	c.peer.mu.Unlock()
	if w {
		select {
		case c.readWake <- struct{}{}:
		default:
		}
	}
	peer := c.peer
	peer.mu.Lock()
	if !peer.finSet {
		peer.finSet = true
		peer.finErr = io.EOF
		peer.finReady = time.Now().Add(peer.Latency)
	}
	peer.mu.Unlock()
	if f != nil {
		f()
	}
	return nil
}

// Reset makes the peer see a connection reset instead of a clean EOF, and
// drops whatever was still in flight towards it.
func (c *End) Reset() {
	c.mu.Lock()
	c.closed = true
	w := c.waiting
	c.waiting = false
	c.freeWindow() // a writer blocked on this end's window gets the reset, as in TCP
	c.mu.Unlock()
	if w {
		select {
		case c.readWake <- struct{}{}:
		default:
		}
	}
	peer := c.peer
	peer.mu.Lock()
	peer.inflight = nil
	peer.marks = nil
	peer.finSet = true
	peer.finErr = resetErr("read")
	peer.finReady = time.Now()
	peer.mu.Unlock()
}

func (c *End) IsClosed() bool {
	c.mu.Lock()
	defer c.mu.Unlock()
	return c.closed
}

type simAddr string

func (a simAddr) Network() string { return "sim" }
func (a simAddr) String() string  { return string(a) }

func (c *End) LocalAddr() net.Addr               { return simAddr(c.name) }
func (c *End) RemoteAddr() net.Addr              { return simAddr(c.peer.name) }
func (c *End) SetDeadline(t time.Time) error     { return nil }
func (c *End) SetReadDeadline(t time.Time) error { return nil }
func (c *End) SetWriteDeadline(t time.Time) error {
	c.mu.Lock()
	c.wdl = t
	c.mu.Unlock()
	return nil
}
func (c *End) Name() string { return c.name }

// ---------------------------------------------------------------------------
// scheduler side

func (c *End) wakeReader() {
	if c.waiting {
		c.waiting = false
		select {
		case c.readWake <- struct{}{}:
		default:
		}
	}
}

// readyBytes returns how many in-flight bytes may be delivered now.
func (c *End) readyBytes(now time.Time) int {
	if now.Before(c.Stall) {
		return 0
	}
	var upto int64 = c.inBase
	for _, m := range c.marks {
		if m.ready.After(now) {
			break
		}
		upto = m.end
	}
	n := int(upto - c.inBase)
	if c.CutAt >= 0 {
		if lim := c.CutAt - c.inBase; int64(n) > lim {
			n = int(lim)
			if n < 0 {
				n = 0
			}
		}
	}
	return n
}

func (n *Network) actions(now time.Time) []*action {
	var out []*action
	for _, p := range n.pipes {
		for _, c := range []*End{p.Cli, p.Srv} {
			c := c
			c.mu.Lock()
			if c.closed || c.rTerm != nil {
				c.mu.Unlock()
				continue
			}
			rb := c.readyBytes(now)
			cutNow := c.CutAt >= 0 && c.inBase >= c.CutAt && !now.Before(c.Stall)
			finNow := c.finSet && len(c.inflight) == 0 && !c.finReady.After(now) && !now.Before(c.Stall)
			c.mu.Unlock()
			switch {
			case rb > 0:
				out = append(out, &action{key: c.name + ".deliver", run: func() { c.deliver(rb) }})
			case cutNow:
				out = append(out, &action{key: c.name + ".cut", run: func() { c.terminate(c.CutErr, c.CutDiscard, "cut") }})
			case finNow:
				out = append(out, &action{key: c.name + ".fin", run: func() { c.terminate(c.finErr, false, "fin") }})
			}
		}
	}
	return out
}

func (n *Network) nextDue() time.Time {
	var next time.Time
	upd := func(t time.Time) {
		if next.IsZero() || t.Before(next) {
			next = t
		}
	}
	now := time.Now()
	for _, p := range n.pipes {
		for _, c := range []*End{p.Cli, p.Srv} {
			c.mu.Lock()
			if !c.closed && c.rTerm == nil {
				pending := len(c.marks) > 0 || c.finSet || (c.CutAt >= 0 && c.inBase >= c.CutAt)
				if pending {
					if c.Stall.After(now) {
						upd(c.Stall)
					}
					if len(c.marks) > 0 && c.marks[0].ready.After(now) {
						upd(c.marks[0].ready)
					}
					if c.finSet && len(c.inflight) == 0 && c.finReady.After(now) {
						upd(c.finReady)
					}
				}
			}
			c.mu.Unlock()
		}
	}
	return next
}

func (c *End) deliver(ready int) {
	run := c.e.Tape.Run
	n := ready
	c.deliveries++
	seg := c.Seg
	if c.deliveries > 4000 && (seg == SegByte || seg == SegSmall) {
		// fine-grained segmentation has made its point by now: do not spend the
		// run's step budget on delivering tens of kilobytes one byte at a time
		seg = SegRandom
	}
	switch seg {
	case SegRandom:
		n = 1 + run.Choose("seg", ready)
	case SegByte:
		n = 1
	case SegSmall:
		m := ready
		if m > 16 {
			m = 16
		}
		n = 1 + run.Choose("seg", m)
	}
	c.mu.Lock()
	if traceSched {
		fmt.Fprintf(os.Stderr, "DELIVER %s %d bytes hash %x\n", c.name, n, hashString(string(c.inflight[:n])))
	}
	c.rbuf = append(c.rbuf, c.inflight[:n]...)
	c.inflight = c.inflight[n:]
	c.inBase += int64(n)
	c.TotalDelivered += int64(n)
	for len(c.marks) > 0 && c.marks[0].end <= c.inBase {
		c.marks = c.marks[1:]
	}
	c.wakeReader()
	c.mu.Unlock()
	c.e.logDeliver(c.name, n, c.TotalDelivered)
}

func (c *End) terminate(err error, discard bool, why string) {
	c.mu.Lock()
	if err == nil {
		err = io.EOF
	}
	c.rTerm = err
	c.TermAt = c.e.Now()
	c.inflight = nil
	c.marks = nil
	c.freeWindow()
	dropped := 0
	if discard {
		dropped = len(c.rbuf)
		c.rbuf = nil
	}
	c.wakeReader()
	c.mu.Unlock()
	// the other side of a cut connection is dead as well
	if why == "cut" {
		c.e.Fault("conn.cut." + errKind(err))
		peer := c.peer
		peer.mu.Lock()
		peer.closed = true
		peer.wakeReader()
		peer.freeWindow()
		peer.mu.Unlock()
	}
	c.e.Logf("net."+why, "%s %v after %d bytes (dropped %d unread)", c.name, err, c.TotalDelivered, dropped)
}

func errKind(err error) string {
	if err == io.EOF {
		return "fin"
	}
	return "rst"
}

func (n *Network) closeAll() {
	for _, p := range n.pipes {
		for _, c := range []*End{p.Cli, p.Srv} {
			c.mu.Lock()
			c.closed = true
			c.waiting = false
			c.freeWindow()
			c.mu.Unlock()
			select {
			case c.readWake <- struct{}{}:
			default:
			}
		}
	}
}

// Unread reports bytes delivered but not yet returned by Read.
func (c *End) Unread() int {
	c.mu.Lock()
	defer c.mu.Unlock()
	return len(c.rbuf)
}

func sortedKeys(m map[string]int) []string {
	var ks []string
	for k := range m {
		ks = append(ks, k)
	}
	sort.Strings(ks)
	return ks
}
