package sim

import (
	"fmt"
	"io"
	"strings"
	"time"

	xmpp "gosrc.io/xmpp"
)

// C18 — keepalive: sent at the interval, closes a dead connection, stops with
// the session.

type c18Scenario struct {
	Client     ClientOpts `json:"client"`
	IntervalNs int64      `json:"interval_ns"`
	Busy       bool       `json:"busy"`
	End        string     `json:"end"` // none | cut | disconnect | stream-error | ka-write-fails | server-close
	Block      bool       `json:"event_callback_blocks"`
	Reconnect  bool       `json:"reconnect_in_callback"`
	TLS        bool       `json:"tls"`
	FailAt     int        `json:"fail_keepalive_k,omitempty"`
	OnTick     bool       `json:"end_on_a_tick,omitempty"`
	RefuseDial bool       `json:"reconnection_refused,omitempty"`
	PeerDrops  bool       `json:"peer_drops_when_keepalive_fails,omitempty"`              // the read side notices the loss while the keepalive is closing the transport
	UnstallMs  int        `json:"peer_reads_again_after_ms,omitempty"`                    // with peer_stops_reading: the peer reads again this long after it closed the stream (0: never)
	Prior      bool       `json:"after_an_earlier_session_ended_by_disconnect,omitempty"` // the same client had a session before, which the application ended with Disconnect
	StalledAck bool       `json:"ack_request_while_peer_does_not_read,omitempty"`
	Stalled    bool       `json:"peer_stops_reading,omitempty"` // the server stops reading (a sender and then the keepalive block in write) and later closes the stream
	EndAfterNs int64      `json:"end_after_ns,omitempty"`
	Ticks      int        `json:"observe_ticks"`
	LatencyNs  int64      `json:"latency_ns"`
}

func init() {
	register(&PropDef{
		ID:    "C18",
		Rule:  "scenario = (keepalive interval, idle/busy session, how and when the session ends: k-th keepalive write fails / cut / Disconnect / stream error at a drawn instant, latency); non-trivial = at least one keepalive tick elapsed while the session was up; distinct = distinct (scenario hash, schedule hash)",
		Real:  []string{"keepalive goroutine and ticker", "XMPPTransport.Ping / Close", "xmpp.Client recv loop"},
		Stub:  []string{"TCP (simnet) with write-failure injection", "XMPP server (scripted model)", "clock (synctest)", "goroutine scheduling (token scheduler)"},
		Run:   runC18,
		Reach: []string{"c18.websocket", "c18.tls", "c18.keepalive_write_failed", "c18.reconnect_in_callback", "c18.peer_stops_reading", "c18.ack_request_while_peer_does_not_read", "c18.after_an_earlier_session"},
	})
}

func runC18(e *Engine, g G, o RunOpt) RunInfo {
	sc := &c18Scenario{Client: DefaultClientOpts()}
	base := []time.Duration{time.Second, 2 * time.Second, 5 * time.Second, 30 * time.Second, 61 * time.Second, 10 * time.Minute}[g.N("interval", 6)]
	if g.Pct("oddint", 30) {
		base += time.Duration(g.Range("intms", 1, 999)) * time.Millisecond
	}
	sc.IntervalNs = int64(base) + 1
	sc.Client.KeepaliveNs = sc.IntervalNs
	sc.Client.SM = g.Pct("sm", 30)
	sc.Client.WebSocket = g.Pct("websocket", 20)
	sc.TLS = !sc.Client.WebSocket && g.Pct("tls", 20)
	sc.Busy = g.Bool("busy")
	sc.End = []string{"none", "cut", "disconnect", "stream-error", "ka-write-fails", "server-close", "silent-peer"}[g.Weighted("end", 2, 3, 3, 2, 4, 3, 2)]
	if sc.End == "silent-peer" && !sc.Client.WebSocket {
		// over TCP a keepalive is a write the kernel accepts: a dark link is found out by nobody
		// within any time this library controls - there is nothing to assert
		sc.End = "cut"
	}
	sc.Block = sc.End != "none" && g.Pct("callback-blocks", 30)
	// ... or reconnects from within the callback, the way a StreamManager does
	sc.Reconnect = !sc.Block && !sc.Client.WebSocket && (sc.End == "cut" || sc.End == "server-close" || sc.End == "ka-write-fails") && g.Pct("reconnect-in-callback", 35)
	sc.PeerDrops = sc.End == "ka-write-fails" && !sc.Client.WebSocket && g.Bool("peer-drops")
	sc.Ticks = g.Range("ticks", 1, 9)
	if sc.End == "ka-write-fails" {
		sc.FailAt = g.Range("failk", 1, 8)
		sc.Ticks = sc.FailAt
	}
	// session end: somewhere within the observed ticks, never on a tick
	frac := g.Range("endfrac", 1, 999)
	sc.EndAfterNs = int64(sc.Ticks-1)*int64(base) + int64(base)*int64(frac)/1000
	sc.EndAfterNs = sc.EndAfterNs/int64(time.Millisecond)*int64(time.Millisecond) + int64(500*time.Microsecond)
	sc.LatencyNs = []int64{0, int64(3*time.Millisecond) + 1, int64(200*time.Millisecond) + 1}[g.N("latency", 3)]
	// ... or exactly on one: the session ends while a keepalive is due or in flight
	// ("session end at any time relative to the ticker")
	if sc.End != "none" && sc.End != "ka-write-fails" && !sc.Block && !sc.Busy && g.Pct("end-on-tick", 25) {
		sc.OnTick = true
		sc.EndAfterNs = int64(sc.Ticks) * sc.IntervalNs
		sc.LatencyNs = 0
		sc.RefuseDial = sc.Reconnect && g.Pct("reconnection-refused", 50)
	}
	if sc.End == "server-close" && !sc.OnTick && !sc.Busy && !sc.Block && !sc.Reconnect && !sc.TLS && !sc.Client.WebSocket && g.Pct("stalled-peer", 75) {
		sc.Stalled = true
		sc.LatencyNs = 0
		// (never again; well within the connect timeout; after every bounded wait of the receiver is over)
		sc.UnstallMs = []int{0, 5000, 1000*sc.Client.ConnectTimeout + 5000}[g.N("unstall", 3)]
		// the server also asks for an acknowledgement: the answer is one more write held up
		sc.StalledAck = g.Bool("stalled-ack-request")
	}
	sc.Prior = !sc.Client.WebSocket && !sc.TLS && !sc.Reconnect && g.Pct("prior-session", 15)
	e.Net.Latency = time.Duration(sc.LatencyNs)
	interval := time.Duration(sc.IntervalNs)

	established := false
	var t0, tEnd time.Duration
	var tFault time.Duration = -1
	var s *Sess
	var closedAt time.Duration = -1
	var kaFailedAt time.Duration = -1
	var live []LiveTask
	reconnected := false
	var t1 time.Duration = -1
	var cli2 *End

	e.Run(func() {
		var ok bool
		srvScript := DefaultNeg()
		srvScript.SM = sc.Client.SM
		if sc.TLS {
			sc.Client.Insecure = false
			sc.Client.TLS = TLSCfgRoots
			srvScript.StartTLS = TLSRequired
			srvScript.Cert = CertGood
		}
		if sc.Client.WebSocket {
			s, ok = StartClientWS(e, sc.Client, sc.Client.SM, func(w *CW) { w.CatchAll() })
			defer s.WS.Stop()
			if ok {
				s.Cli.IsKeepalive = WSPing
				e.Probe("c18.websocket")
			}
		} else {
			s, ok = StartClientNoSettle(e, sc.Client, []NegScript{srvScript}, func(w *CW, srv *Server) { w.CatchAll() })
		}
		if !ok {
			return
		}
		if sc.Prior {
			// an earlier session of this client, ended by the application: whatever that left behind in
			// the client or its transport must not change how the next session is kept alive
			e.Sleep(interval/2 + 11*time.Microsecond)
			e.Call("Disconnect(previous session)", s.W.Client.Disconnect)
			e.Sleep(time.Duration(sc.Client.ConnectTimeout+2) * time.Second)
			srvScript2 := DefaultNeg()
			srvScript2.SM = sc.Client.SM
			for len(s.Srv.Scripts) < 2 {
				s.Srv.Scripts = append(s.Srv.Scripts, srvScript2)
			}
			err, _ := e.Call("Connect(again)", s.W.Client.Connect)
			if err != nil || len(s.Srv.Conns) != 2 {
				return
			}
			s.Conn = s.Srv.Conns[1]
			s.Cli = s.Conn.Pipe.Cli
			s.W.Events = nil
			s.W.Errors = nil
			e.Probe("c18.after_an_earlier_session")
		}
		established = true
		t0 = e.Now()
		cli := s.Cli
		if sc.Block {
			// the application stays in the callback that announces the end (as a reconnecting StreamManager does)
			s.W.Client.SetHandler(s.W.EventRecorder(func(ev xmpp.Event) error {
				st := xmpp.VerifEventState(ev)
				if st == xmpp.StateDisconnected || st == xmpp.StateStreamError {
					e.Sleep(3*interval + time.Second)
				}
				return nil
			}))
		}
		if sc.Reconnect {
			s.W.Client.SetHandler(s.W.EventRecorder(func(ev xmpp.Event) error {
				if xmpp.VerifEventState(ev) == xmpp.StateDisconnected && !reconnected {
					reconnected = true
					if sc.RefuseDial {
						e.Net.DialPlan = func(int) Dial { return DialRefuse }
					}
					err := s.W.Client.Resume()
					e.Logf("app.reconnect", "Resume from the Disconnected callback: %v", err)
					if err == nil && len(s.Srv.Conns) == 2 {
						t1 = e.Now()
						c2 := s.Srv.Conns[1].Pipe.Cli
						c2.TrackWrites = true
						if sc.TLS {
							c2.IsKeepalive = func(p []byte) bool { return len(p) == 23 && p[0] == 0x17 }
						}
						cli2 = c2
					}
				}
				return nil
			}))
		}
		cli.TrackWrites = true
		if sc.TLS {
			// inside TLS 1.3 a one-byte write is an application-data record of 5+1+1+16 bytes;
			// every stanza is longer
			cli.IsKeepalive = func(p []byte) bool { return len(p) == 23 && p[0] == 0x17 }
		}
		cli.OnClose = func() { closedAt = e.Now() }
		if sc.FailAt > 0 {
			cli.FailKeepaliveAt = sc.FailAt
		}
		if sc.Stalled {
			// the peer's window fills up: an application send blocks in write, and so does the
			// next keepalive behind it
			s.Conn.End.RecvWindow = 200
			s.Conn.PauseReads = true
			e.Go("stalled-sender", func() {
				s.W.Client.SendRaw("<message id='big' to='peer@" + SimDomain + "'><body>" + strings.Repeat("x", 1000) + "</body></message>")
			})
			e.Probe("c18.peer_stops_reading")
			if sc.StalledAck {
				s.Conn.Send("<r xmlns='" + nsSM + "'/>")
				e.Probe("c18.ack_request_while_peer_does_not_read")
			}
		}
		if sc.Busy {
			e.Go("busy", func() {
				for i := 0; i < 3*sc.Ticks; i++ {
					e.Sleep(interval/3 + 7*time.Microsecond)
					if s.SrvDead() || cli.IsClosed() {
						return
					}
					s.SrvSend(fmt.Sprintf("<message id='b%d' from='peer@%s'><body>busy</body></message>", i, SimDomain))
					e.Yield("busy.send")
					s.W.Client.SendRaw(fmt.Sprintf("<message id='c%d' to='peer@%s'><body>busy too</body></message>", i, SimDomain))
					e.Yield("busy.sent")
				}
			})
		}
		switch sc.End {
		case "none":
			e.Sleep(time.Duration(sc.Ticks)*interval + interval/2)
			tEnd = -1
		case "ka-write-fails":
			// the k-th keepalive fails at t0+k*interval; then the transport must be closed
			if sc.PeerDrops {
				// ... and the peer drops the connection at that very instant: the receiver sees
				// the end while the keepalive is still closing the transport
				failed := false
				cli.OnWrite = func(p []byte, n int, err error) {
					if err != nil {
						failed = true
					}
				}
				e.Go("peer-drops", func() {
					if !e.WaitUntilFor("peer-drops", time.Duration(sc.FailAt+1)*interval, func() bool { return failed }) && !s.Conn.Dead {
						s.Conn.Dead = true
						s.Conn.closedByUs = true
						s.Conn.End.Close()
						e.Fault("server.drops_connection")
					}
				})
			}
			e.Sleep(time.Duration(sc.FailAt)*interval + time.Duration(sc.Client.ConnectTimeout)*time.Second + 2*time.Second)
			tEnd = lastDisconnected(s.W)
			e.Sleep(3 * interval)
			if sc.Reconnect {
				// the reconnection from the callback takes a few round trips; then watch 3 intervals
				e.Sleep(4*interval + 5*time.Second)
			}
		default:
			e.Sleep(time.Duration(sc.EndAfterNs))
			tFault = e.Now()
			switch sc.End {
			case "cut":
				cli.CutAt = s.SrvEnd().TotalWritten
				cli.CutErr = io.EOF
				e.Fault("conn.cut.at_time")
			case "disconnect":
				e.Call("Disconnect", s.W.Client.Disconnect)
			case "stream-error":
				s.SrvSend("<stream:error xmlns:stream='" + nsStream + "'><conflict xmlns='" + nsStreams + "'/></stream:error>")
				e.Fault("stream.error")
			case "silent-peer":
				// the link goes dark in both directions: nothing arrives any more, nothing fails at once.
				// Only the keepalive can find out (TCP: its writes are accepted for ever - nothing to
				// find out; WebSocket: the pong does not come back).
				cli.Blackhole = true
				s.SrvEnd().Blackhole = true
				e.Fault("link.black_hole")
			case "server-close":
				if s.WSC != nil {
					s.WSC.Send("<close xmlns='" + nsFraming + "'/>")
				} else {
					s.Conn.Send("</stream:stream>")
				}
				e.Fault("server.graceful_close")
				if sc.Stalled && sc.UnstallMs > 0 {
					// the peer reads again a little later (well within the connect timeout): the writes that
					// were held up complete - the keepalive among them belongs to the session that is ending
					e.Go("unstall", func() {
						e.Sleep(time.Duration(sc.UnstallMs)*time.Millisecond + 3*time.Microsecond)
						s.Conn.PauseReads = false
					})
				}
			}
			// the session is over once the loss was reported / Disconnect returned
			if sc.End == "disconnect" {
				tEnd = e.Now()
			} else {
				// the end of the session is announced by a Disconnected event (loss)
				// or a StreamError event (the server ended the stream with an error)
				// (on the WebSocket transport a lost connection is only noticed by the next keepalive)
				e.WaitUntilFor("await-end", 2*interval+time.Duration(sc.Client.ConnectTimeout+20)*time.Second, func() bool {
					return countState(s.W.Events, xmpp.StateDisconnected)+countState(s.W.Events, xmpp.StateStreamError) > 0
				})
				tEnd = lastDisconnected(s.W)
				if tEnd < 0 {
					for _, ev := range s.W.Events {
						if ev.State == xmpp.StateStreamError {
							tEnd = ev.At
						}
					}
				}
			}
			// a keepalive whose ping failed at the very end is still inside Transport.Close
			// (which waits for the peer's closing tag up to the connect timeout): not a leak
			e.Sleep(3*interval + time.Duration(sc.Client.ConnectTimeout+1)*time.Second)
			if sc.Block {
				e.Sleep(3*interval + 2*time.Second)
			}
			if sc.Reconnect {
				e.Sleep(4 * interval)
			}
		}
		live = e.LiveTasks()
	})

	info := RunInfo{Scenario: sc, Nontrivial: established}
	if !established {
		e.Probe("precondition_failed")
		return info
	}
	if e.Stuck != "" {
		e.Violate("C18", "stuck", "%s", e.Stuck)
	}
	for _, p := range e.Panics {
		e.Violate("C18", "panic", "%s: %s", p.Where, p.Value)
	}
	// keepalive writes as seen on the wire
	var kas []WriteRec
	for _, wr := range s.Cli.WriteLog {
		if wr.KA {
			kas = append(kas, wr)
			if wr.Err && kaFailedAt < 0 {
				kaFailedAt = wr.At
			}
		}
	}
	if sc.TLS {
		e.Probe("c18.tls")
	}
	// 1. while the session is up, the i-th keepalive is written at t0 + i*interval exactly
	upTo := tFault
	if sc.End == "none" {
		upTo = t0 + time.Duration(sc.Ticks)*interval + interval/2
	}
	if sc.End == "ka-write-fails" {
		upTo = t0 + time.Duration(sc.FailAt)*interval
	}
	expect := 0
	for i := 1; !sc.Stalled; i++ {
		at := t0 + time.Duration(i)*interval
		if at > upTo || (sc.OnTick && at == upTo) {
			// a keepalive due at the very instant the session ends may or may not be written
			break
		}
		expect++
		if i-1 >= len(kas) {
			e.Violate("C18", "keepalive-missing", "keepalive #%d expected at %v (t0 %v + %d x %v) was never written; session end %v; writes: %v", i, at, t0, i, interval, tEnd, kaTimes(kas))
			break
		}
		if kas[i-1].At != at {
			e.Violate("C18", "keepalive-off-schedule", "keepalive #%d written at %v, expected %v (t0 %v + %d x %v)", i, kas[i-1].At, at, t0, i, interval)
			break
		}
	}
	// 2. after the session has ended no keepalive is written
	if sc.End != "none" && tEnd >= 0 {
		for _, k := range kas {
			// (a ping that was already being written when the session ended - held up by a peer that did
			// not read - is a keepalive of the session; what starts after the end is not)
			if k.At > tEnd && k.Start > tEnd {
				e.Violate("C18", "keepalive-after-end", "keepalive written at %v, session ended (%s) at %v", k.At, sc.End, tEnd)
				break
			}
		}
	} else if sc.End != "none" {
		e.Violate("C18", "end-not-reported", "session end (%s) was never reported by a Disconnected or StreamError event", sc.End)
	}
	if len(kas) > expect && (sc.End == "none") {
		e.Violate("C18", "keepalive-extra", "%d keepalives written, %d expected: %v", len(kas), expect, kaTimes(kas))
	}
	// 3. a failed keepalive closes the connection and the loss is reported
	if sc.End == "ka-write-fails" {
		switch {
		case kaFailedAt < 0:
			e.Violate("C18", "failure-not-reached", "keepalive #%d never failed; writes %v", sc.FailAt, kaTimes(kas))
		case closedAt < 0:
			e.Violate("C18", "dead-connection-not-closed", "keepalive write failed at %v but the connection was never closed", kaFailedAt)
		case closedAt > kaFailedAt+time.Duration(sc.Client.ConnectTimeout)*time.Second+time.Second:
			e.Violate("C18", "dead-connection-closed-late", "keepalive write failed at %v, connection closed at %v", kaFailedAt, closedAt)
		}
		if n := countState(s.W.Events, xmpp.StateDisconnected); n != 1 {
			e.Violate("C18", "loss-reported-"+cnt(n), "after a failed keepalive %d Disconnected events were delivered", n)
		}
		if n := len(s.W.Errors); n != 1 {
			e.Violate("C18", "loss-error-callbacks-"+cnt(n), "after a failed keepalive the ErrorHandler was called %d times: %v", n, s.W.Errors)
		}
		e.Probe("c18.keepalive_write_failed")
	}
	if sc.Stalled && tEnd >= 0 {
		// whatever is blocked in write stays blocked (nobody closes the socket); the end of the
		// stream must still be reported, and not later than the configured timeout allows
		if late := tEnd - tFault; late > time.Duration(sc.Client.ConnectTimeout)*time.Second+time.Second {
			e.Violate("C18", "end-reported-late", "the server closed the stream at %v, the end was reported at %v", tFault, tEnd)
		}
	}
	if sc.End != "none" && !sc.Reconnect && !sc.Stalled {
		for _, lt := range live {
			if !lt.Harness && strings.Contains(lt.Stack, "xmpp.keepalive(") {
				e.Violate("C18", "keepalive-goroutine-left", "keepalive goroutine still alive 3 intervals and the close timeout after the session ended\n%s\n%s", lt.Header, clip(lt.Stack, 1200))
			}
		}
	}
	if sc.Reconnect && cli2 != nil && t1 >= 0 {
		// the re-established session is kept alive on the same schedule
		var k2 []WriteRec
		for _, wr := range cli2.WriteLog {
			if wr.KA {
				k2 = append(k2, wr)
			}
		}
		for i := 1; i <= 3; i++ {
			at := t1 + time.Duration(i)*interval
			if i-1 >= len(k2) {
				e.Violate("C18", "keepalive-missing-after-reconnect", "session re-established at %v from the Disconnected callback: keepalive #%d expected at %v was never written; writes on the new connection: %v", t1, i, at, kaTimes(k2))
				break
			}
			if k2[i-1].At != at {
				e.Violate("C18", "keepalive-off-schedule-after-reconnect", "session re-established at %v: keepalive #%d written at %v, expected %v", t1, i, k2[i-1].At, at)
				break
			}
		}
		if cli2.IsClosed() {
			e.Violate("C18", "new-connection-closed", "the connection re-established at %v was closed although nothing failed on it", t1)
		}
		e.Probe("c18.reconnect_in_callback")
	}
	if expect > 0 {
		e.Probe("c18.ticks_observed")
	} else if !sc.Stalled {
		info.Nontrivial = false
	}
	return info
}

func kaTimes(kas []WriteRec) []time.Duration {
	var t []time.Duration
	for _, k := range kas {
		t = append(t, k.At)
	}
	return t
}

func lastDisconnected(w *CW) time.Duration {
	var t time.Duration = -1
	for _, ev := range w.Events {
		if ev.State == xmpp.StateDisconnected {
			t = ev.At
		}
	}
	return t
}
