package sim

import (
	"fmt"
	"io"
	"strings"
	"time"

	xmpp "gosrc.io/xmpp"
)

// C12 — a lost connection is reported exactly once at every cut point;
// nothing leaks.

type c12Scenario struct {
	Client       ClientOpts `json:"client"`
	Server       NegScript  `json:"server"`
	Inbound      []InEl     `json:"inbound"`
	CutAt        int64      `json:"cut_at"` // offset into the inbound sequence
	CutKind      string     `json:"cut_kind"`
	Seg          int        `json:"segmentation"`
	LatencyNs    int64      `json:"latency_ns"`
	Dawdle       int        `json:"handler_dawdle"`
	Preset       int        `json:"preset"`
	BlockNs      int64      `json:"event_callback_blocks_ns"`
	AppSends     int        `json:"application_sends_around_the_cut"`
	ResetAtStart bool       `json:"reset_as_soon_as_the_session_is_up,omitempty"` // the peer resets the connection while the application is still in its SessionEstablished callback: the first write of the session fails
	Second       bool       `json:"on_second_connection"`                         // the session under test is the one re-established by Resume after an earlier loss
}

func netModes(g G, e *Engine) (int, int64) {
	seg := g.Weighted("segmode", 5, 2, 1, 2)
	lat := []int64{0, 0, int64(3*time.Millisecond) + 1, int64(700*time.Millisecond) + 1}[g.N("latency", 4)]
	e.Net.Seg = SegMode(seg)
	e.Net.Latency = time.Duration(lat)
	return seg, lat
}

func init() {
	register(&PropDef{
		ID:    "C12",
		Rule:  "scenario = (client cfg, inbound stanza mix, cut offset, cut kind, segmentation, latency); non-trivial = the session was established and the cut was delivered to the client; distinct = distinct (scenario hash, schedule hash)",
		Real:  []string{"xmpp.Client", "xmpp.Session", "xmpp.Router", "xmpp.XMPPTransport", "stanza codec", "keepalive and recv goroutines"},
		Stub:  []string{"TCP (simnet)", "XMPP server (scripted model)", "clock (synctest)", "goroutine scheduling (token scheduler)", "sync.RWMutex (equivalent shim)"},
		Run:   runC12,
		Reach: []string{"c12.tls_close", "c12.reset_at_start", "c12.second_connection", "c12.blocking_callback"},
	})
}

func runC12(e *Engine, g G, o RunOpt) RunInfo {
	sc := &c12Scenario{Client: DefaultClientOpts(), Server: DefaultNeg()}
	if g.Pct("tls-close", 10) {
		return runC12TLS(e, g, sc)
	}
	if g.Pct("reset-at-start", 5) {
		return runC12ResetAtStart(e, g, sc)
	}
	sc.Client.SM = g.Bool("sm")
	sc.Server.SM = sc.Client.SM || g.Bool("srv-sm")
	sc.Client.KeepaliveNs = int64([]time.Duration{30 * time.Second, 2 * time.Second, 7 * time.Minute}[g.N("keepalive", 3)]) + 1
	sc.Seg, sc.LatencyNs = netModes(g, e)
	sc.Dawdle = g.N("dawdle", 3)
	sc.Preset = g.N("preset", 3)
	if g.Pct("callback-blocks", 25) {
		// applications (a StreamManager) stay in the Disconnected callback while they reconnect
		sc.BlockNs = 3*sc.Client.KeepaliveNs + int64(time.Second)
	}
	n := 0
	switch sc.Preset {
	case 0: // small streams: cut offsets are covered densely
		n = g.Range("n", 0, 3)
	case 1:
		n = g.Range("n", 1, 10)
	default:
		n = g.Range("n", 0, 5)
	}
	sc.AppSends = []int{0, 0, 2, 5}[g.N("appsends", 4)]
	sc.Second = g.Pct("second-connection", 25)
	sc.Inbound = GenInbound(g, n, InboundOpts{AllowSpace: true, AllowEntity: true, AllowNested: true, IDPrefix: "in", AllowBig: sc.Preset == 1, AllowR: true,
		AllowA: sc.Client.SM && sc.AppSends > 0, MaxA: 2})
	var total int64
	if n > 0 {
		total = sc.Inbound[n-1].End
	}
	// cut position: anywhere, biased to interesting places
	switch g.Weighted("cutpos", 6, 2, 1) {
	case 0:
		sc.CutAt = int64(g.Range("cut", 0, int(total)))
	case 1:
		if n > 0 {
			sc.CutAt = sc.Inbound[g.N("cutel", n)].End - int64(g.N("cutback", 3))
		}
	default:
		sc.CutAt = total
	}
	if sc.CutAt < 0 {
		sc.CutAt = 0
	}
	sc.CutKind = []string{"fin", "rst", "rst-discard", "silent"}[g.Weighted("cutkind", 5, 2, 2, 2)]

	certs := sharedCerts()
	srv := NewServer(e, SimDomain)
	srv.Scripts = []NegScript{sc.Server}
	w := NewCW(e, sc.Client, certs)
	w.Dawdle = sc.Dawdle
	w.CatchAll()
	kaDuringCallback := -1
	appSendsReturned := -1

	established := false
	cutDelivered := false
	var base int64
	var readAtEnd int64
	var kaWritesAfter, kaWritesAtCheck int
	var live []LiveTask
	var cli0 *End
	ka := time.Duration(sc.Client.KeepaliveNs)

	e.Run(func() {
		if err := w.Create(); err != nil {
			e.Logf("setup", "NewClient failed: %v", err)
			return
		}
		err, _ := e.Call("Connect", w.Client.Connect)
		if err != nil || len(srv.Conns) == 0 {
			return
		}
		if sc.Second {
			// an earlier session of the same client was lost and re-established first: whatever
			// that left behind must not report the next loss a second time
			c0 := srv.Conns[0]
			e.Sleep(100 * time.Millisecond)
			c0.Pipe.Cli.CutAt = c0.End.TotalWritten
			c0.Pipe.Cli.CutErr = io.EOF
			if e.WaitUntilFor("first-loss", time.Minute, func() bool { return countState(w.Events, xmpp.StateDisconnected) > 0 }) {
				return
			}
			e.Sleep(time.Second)
			err, _ := e.Call("Resume", w.Client.Resume)
			if err != nil || len(srv.Conns) != 2 {
				return
			}
			e.Sleep(100 * time.Millisecond)
			// forget what the first loss reported
			w.Errors = nil
			w.Events = nil
			w.Handled = nil
			e.Probe("c12.second_connection")
		}
		established = true
		conn := srv.Conns[len(srv.Conns)-1]
		cli := conn.Pipe.Cli
		cli0 = cli
		if sc.BlockNs > 0 {
			w.Client.SetHandler(w.EventRecorder(func(ev xmpp.Event) error {
				if xmpp.VerifEventState(ev) == xmpp.StateDisconnected {
					before := cli.KeepaliveWrites
					e.Sleep(time.Duration(sc.BlockNs))
					kaDuringCallback = cli.KeepaliveWrites - before
				}
				return nil
			}))
		}
		// let the initial presence arrive and everything settle
		e.Sleep(50 * time.Millisecond)
		base = conn.End.TotalWritten
		// arm the cut on the client's inbound stream
		cut := base + sc.CutAt
		switch sc.CutKind {
		case "fin":
			cli.CutErr = io.EOF
		case "rst":
			cli.CutErr = resetErr("read")
		case "rst-discard":
			cli.CutErr = resetErr("read")
			cli.CutDiscard = true
		}
		if sc.CutKind != "silent" {
			cli.CutAt = cut
		}
		sendsReturned := 0
		if sc.AppSends > 0 {
			// the application keeps sending while the connection dies: some of these writes fail
			e.Go("app-sender", func() {
				for i := 0; i < sc.AppSends; i++ {
					id := fmt.Sprintf("app%d", i+1)
					e.Call("SendRaw "+id, func() error {
						return w.Client.SendRaw(fmt.Sprintf("<message id='%s' to='peer@%s'><body>from the application</body></message>", id, SimDomain))
					})
					sendsReturned++
					e.Sleep(time.Duration(1+i)*time.Millisecond + 3*time.Microsecond)
				}
			})
		}
		defer func() { appSendsReturned = sendsReturned }()
		var all strings.Builder
		for _, el := range sc.Inbound {
			all.WriteString(el.Raw)
		}
		data := all.String()
		if sc.CutKind == "silent" {
			// the peer vanishes: bytes up to the cut arrive, nothing after, no FIN
			data = data[:sc.CutAt]
		}
		// the server writes the sequence in a few writes
		for len(data) > 0 {
			k := len(data)
			if k > 700 {
				k = 700
			}
			conn.Send(data[:k])
			data = data[k:]
			e.Yield("srv.more")
		}
		if sc.CutKind == "silent" {
			e.Sleep(10 * time.Millisecond)
			e.Fault("conn.silent_death")
			// the server host is gone: its side is closed without FIN reaching the client
			conn.Dead = true
			conn.closedByUs = true
			conn.End.mu.Lock()
			conn.End.closed = true
			conn.End.wakeReader()
			conn.End.mu.Unlock()
		}
		// wait for the loss to be reported (bounded): silent death needs two
		// keepalives plus the close timeout
		limit := 3*ka + time.Duration(sc.Client.ConnectTimeout+5)*time.Second + 5*time.Second + time.Duration(sc.BlockNs)
		e.WaitUntilFor("await-disconnect", limit, func() bool {
			return len(w.Events) > 0 && w.Events[len(w.Events)-1].State == xmpp.StateDisconnected && w.Events[len(w.Events)-1].Seq > 0 && countState(w.Events, xmpp.StateDisconnected) > 0 && len(w.Errors) > 0
		})
		cutDelivered = cli.rTerm != nil || cli.IsClosed() || sc.CutKind == "silent"
		readAtEnd = cli.TotalRead
		kaWritesAfter = countKeepalives(conn)
		// now let 3 keepalive intervals and the connect timeout pass
		e.Sleep(3*ka + time.Duration(sc.Client.ConnectTimeout)*time.Second + time.Second)
		kaWritesAtCheck = countKeepalives(conn)
		live = e.LiveTasks()
	})

	info := RunInfo{Scenario: sc, Nontrivial: established && cutDelivered}
	if !established {
		e.Probe("precondition_failed")
		return info
	}
	if e.Stuck != "" {
		e.Violate("C12", "stuck", "%s", e.Stuck)
	}
	for _, p := range e.Panics {
		e.Violate("C12", "panic", "%s: %s", p.Where, p.Value)
	}
	nErr := len(w.Errors)
	nDisc := countState(w.Events, xmpp.StateDisconnected)
	if nErr != 1 {
		e.Violate("C12", fmt.Sprintf("error-callbacks=%s", cnt(nErr)), "expected exactly one ErrorHandler call after the cut (%s at offset %d), got %d: %v", sc.CutKind, sc.CutAt, nErr, w.Errors)
	}
	if nDisc == 1 && sc.CutKind != "silent" && cli0 != nil && cli0.rTerm != nil {
		// bounded progress once the fault has happened: the end of the stream has reached the client's
		// socket, so the report does not have to wait for anything but (at most) a keepalive ping
		// that is under way - for which the receiver waits no longer than the connect timeout
		ev := lastState(w.Events, xmpp.StateDisconnected)
		if late := ev.At - cli0.TermAt; late > time.Duration(sc.Client.ConnectTimeout)*time.Second+2*time.Second {
			e.Violate("C12", "loss-reported-late", "the %s cut reached the client's socket at %v; the loss was reported at %v (keepalive interval %v)", sc.CutKind, cli0.TermAt, ev.At, ka)
		}
	}
	if nDisc != 1 {
		e.Violate("C12", fmt.Sprintf("disconnected-events=%s", cnt(nDisc)), "expected exactly one Disconnected event after the cut (%s at offset %d), got %d", sc.CutKind, sc.CutAt, nDisc)
	}
	// stanzas completely returned by conn.Read before the cut must be routed
	got := map[string]int{}
	for _, h := range w.Handled {
		got[h.Kind+"/"+h.ID]++
	}
	complete := 0
	for _, el := range sc.Inbound {
		if !el.Stanza {
			continue
		}
		key := el.Kind + "/" + el.ID
		if base+el.End <= readAtEnd {
			complete++
			if got[key] != 1 {
				e.Violate("C12", "received-stanza-not-routed-once", "%s was completely read before the cut (ends at %d, read %d) but was routed %d times", key, el.End, readAtEnd-base, got[key])
			}
		} else if got[key] > 0 && base+el.End > readAtEnd {
			// cannot happen unless the parser invents data
			e.Violate("C12", "routed-incomplete-stanza", "%s routed although only %d of its bytes up to %d were read", key, readAtEnd-base, el.End)
		}
	}
	if complete > 0 {
		e.Probe("c12.stanzas_before_cut")
	}
	if sc.CutAt > 0 && sc.CutAt < lastEnd(sc.Inbound) && !atBoundary(sc.Inbound, sc.CutAt) {
		e.Probe("c12.cut_inside_element")
	}
	// the Disconnected event carries the stream-management state
	if nDisc >= 1 && sc.Client.SM && sc.Server.SM {
		ev := lastState(w.Events, xmpp.StateDisconnected)
		if ev.SMId != sc.Server.SMId {
			e.Violate("C12", "event-smstate-id", "Disconnected event carries SM id %q, session id is %q", ev.SMId, sc.Server.SMId)
		}
		if !o.Avoiding("inbound-counts-nonstanza") && int(ev.Inbound) != complete {
			e.Violate("C12", "event-smstate-inbound", "Disconnected event carries inbound count %d, %d stanzas were completely received", ev.Inbound, complete)
		}
	}
	if sc.AppSends > 0 && appSendsReturned >= 0 && appSendsReturned != sc.AppSends {
		e.Violate("C12", "send-never-returned", "%d of %d application sends issued around the loss never returned (blocked tasks: %v)", sc.AppSends-appSendsReturned, sc.AppSends, e.BlockedTasks())
	}
	if sc.AppSends > 0 {
		e.Probe("c12.application_sends_around_cut")
	}
	if kaDuringCallback > 0 {
		e.Violate("C12", "keepalive-during-disconnected-callback", "%d keepalive writes while the Disconnected callback was running (%v)", kaDuringCallback, time.Duration(sc.BlockNs))
	}
	if sc.BlockNs > 0 {
		e.Probe("c12.blocking_callback")
	}
	if kaWritesAtCheck != kaWritesAfter {
		e.Violate("C12", "keepalive-after-loss", "%d keepalive writes after the loss was reported", kaWritesAtCheck-kaWritesAfter)
	}
	for _, lt := range live {
		if lt.Harness {
			continue
		}
		e.Violate("C12", "goroutine-left:"+siteOf(lt), "library goroutine %s still alive after the loss\n%s\n%s", lt.Name, lt.Header, clip(lt.Stack, 1500))
	}
	return info
}

func siteOf(lt LiveTask) string {
	// the creation site (task name without ordinal) is stable across schedules
	if i := strings.IndexByte(lt.Name, '#'); i >= 0 {
		return lt.Name[:i]
	}
	return lt.Name
}

func cnt(n int) string {
	switch {
	case n == 0:
		return "0"
	case n == 1:
		return "1"
	default:
		return "many"
	}
}

func countState(evs []EvRec, st xmpp.ConnState) int {
	n := 0
	for _, ev := range evs {
		if ev.State == st {
			n++
		}
	}
	return n
}

func lastState(evs []EvRec, st xmpp.ConnState) EvRec {
	var r EvRec
	for _, ev := range evs {
		if ev.State == st {
			r = ev
		}
	}
	return r
}

func countKeepalives(sc *SrvConn) int {
	// keepalive = a write of a lone "\n" on the client side
	return sc.Pipe.Cli.KeepaliveWrites
}

func lastEnd(in []InEl) int64 {
	if len(in) == 0 {
		return 0
	}
	return in[len(in)-1].End
}

func atBoundary(in []InEl, off int64) bool {
	if off == 0 {
		return true
	}
	for _, el := range in {
		if el.End == off {
			return true
		}
	}
	return false
}

var certsOnce *CertSet

func sharedCerts() *CertSet {
	if certsOnce == nil {
		certsOnce = NewCertSet(SimDomain)
	}
	return certsOnce
}

// runC12TLS: the session runs inside TLS and the server ends it with its last stanzas: data
// records, the close_notify alert and the FIN travel together (crypto/tls then returns the last
// data together with io.EOF from one Read when the alert is not encrypted, i.e. before TLS 1.3).
// Everything that was sent was completely received before the end.
func runC12TLS(e *Engine, g G, sc *c12Scenario) RunInfo {
	sc.Client.Insecure = false
	sc.Client.TLS = TLSCfgRoots
	sc.Client.Logger = g.Weighted("logger", 1, 3)
	sc.Client.SM = g.Bool("sm")
	sc.Client.KeepaliveNs = int64(30*time.Second) + 1
	sc.Server.SM = sc.Client.SM
	sc.Server.StartTLS = TLSRequired
	sc.Server.Cert = CertGood
	sc.Server.TLS12 = g.Pct("tls12", 65)
	sc.CutKind = "tls-close"
	sc.Seg, sc.LatencyNs = netModes(g, e)
	n := g.Range("n", 1, 8)
	sc.Inbound = GenInbound(g, n, InboundOpts{AllowEntity: true, AllowNested: true, IDPrefix: "in", OnlyStanzas: true})
	perWrite := g.Range("stanzas-per-write", 1, 4)
	sc.CutAt = lastEnd(sc.Inbound)

	srv := NewServer(e, SimDomain)
	srv.Certs = sharedCerts()
	srv.Scripts = []NegScript{sc.Server}
	w := NewCW(e, sc.Client, sharedCerts())
	w.CatchAll()
	established := false
	var live []LiveTask
	var kaAfter, kaCheck int
	ka := time.Duration(sc.Client.KeepaliveNs)
	e.Run(func() {
		if err := w.Create(); err != nil {
			return
		}
		err, _ := e.Call("Connect", w.Client.Connect)
		if err != nil || len(srv.Conns) == 0 || !srv.Conns[0].TLS {
			return
		}
		established = true
		conn := srv.Conns[0]
		e.Sleep(50 * time.Millisecond)
		for i := 0; i < len(sc.Inbound); i += perWrite {
			var b strings.Builder
			for j := i; j < i+perWrite && j < len(sc.Inbound); j++ {
				b.WriteString(sc.Inbound[j].Raw)
			}
			conn.Send(b.String())
		}
		conn.CloseTLS()
		e.Fault("conn.tls_close_notify")
		limit := 3*ka + time.Duration(sc.Client.ConnectTimeout+10)*time.Second
		e.WaitUntilFor("await-disconnect", limit, func() bool {
			return countState(w.Events, xmpp.StateDisconnected) > 0 && len(w.Errors) > 0
		})
		kaAfter = conn.Pipe.Cli.Writes
		e.Sleep(3*ka + time.Duration(sc.Client.ConnectTimeout)*time.Second + time.Second)
		kaCheck = conn.Pipe.Cli.Writes
		live = e.LiveTasks()
	})
	info := RunInfo{Scenario: sc, Nontrivial: established}
	if !established {
		e.Probe("precondition_failed")
		return info
	}
	e.Probe("c12.tls_close")
	if sc.Server.TLS12 {
		e.Probe("c12.tls12_close")
	}
	if e.Stuck != "" {
		e.Violate("C12", "stuck", "%s", e.Stuck)
	}
	for _, p := range e.Panics {
		e.Violate("C12", "panic", "%s: %s", p.Where, p.Value)
	}
	if nErr := len(w.Errors); nErr != 1 {
		e.Violate("C12", fmt.Sprintf("error-callbacks=%s", cnt(nErr)), "expected exactly one ErrorHandler call after the server closed the TLS session, got %d: %v", nErr, w.Errors)
	}
	if nDisc := countState(w.Events, xmpp.StateDisconnected); nDisc != 1 {
		e.Violate("C12", fmt.Sprintf("disconnected-events=%s", cnt(nDisc)), "expected exactly one Disconnected event after the server closed the TLS session, got %d", nDisc)
	}
	got := map[string]int{}
	for _, h := range w.Handled {
		got[h.Kind+"/"+h.ID]++
	}
	for _, el := range sc.Inbound {
		key := el.Kind + "/" + el.ID
		if got[key] != 1 {
			e.Violate("C12", "received-stanza-not-routed-once", "%s was sent (and, TCP and TLS being ordered, received) before the server's close_notify but was routed %d times (TLS1.2-only server: %v, stream logger: %d)", key, got[key], sc.Server.TLS12, sc.Client.Logger)
			break
		}
	}
	if sc.Client.SM {
		if ev := lastState(w.Events, xmpp.StateDisconnected); countState(w.Events, xmpp.StateDisconnected) == 1 && int(ev.Inbound) != len(sc.Inbound) {
			e.Violate("C12", "event-smstate-inbound", "Disconnected event carries inbound count %d, %d stanzas were completely received", ev.Inbound, len(sc.Inbound))
		}
	}
	if kaCheck != kaAfter {
		e.Violate("C12", "keepalive-after-loss", "%d writes on the dead connection after the loss was reported", kaCheck-kaAfter)
	}
	for _, lt := range live {
		if lt.Harness {
			continue
		}
		e.Violate("C12", "goroutine-left:"+siteOf(lt), "library goroutine %s still alive after the loss\n%s\n%s", lt.Name, lt.Header, clip(lt.Stack, 1500))
	}
	return info
}

// runC12ResetAtStart: the connection is lost at offset 0 of the session - the peer resets it while
// the application is still busy in its SessionEstablished callback, so that the very first write of
// the session (the initial presence) fails. The loss has to be reported like any other.
func runC12ResetAtStart(e *Engine, g G, sc *c12Scenario) RunInfo {
	sc.ResetAtStart = true
	sc.Client.SM = g.Bool("sm")
	sc.Server.SM = sc.Client.SM
	sc.Client.KeepaliveNs = int64(30*time.Second) + 1
	sc.CutKind = "rst"
	sc.LatencyNs = []int64{0, int64(3*time.Millisecond) + 1}[g.N("latency", 2)]
	e.Net.Latency = time.Duration(sc.LatencyNs)
	srv := NewServer(e, SimDomain)
	srv.Scripts = []NegScript{sc.Server}
	w := NewCW(e, sc.Client, sharedCerts())
	w.CatchAll()
	established := false
	var connectErr error
	var live []LiveTask
	ka := time.Duration(sc.Client.KeepaliveNs)
	e.Run(func() {
		if err := w.Create(); err != nil {
			return
		}
		w.Client.SetHandler(w.EventRecorder(func(ev xmpp.Event) error {
			if xmpp.VerifEventState(ev) == xmpp.StateSessionEstablished {
				e.Sleep(300 * time.Millisecond)
			}
			return nil
		}))
		e.Go("resetter", func() {
			if !e.WaitUntilFor("session-up", time.Minute, func() bool {
				return len(srv.Conns) > 0 && srv.Conns[0].Established != "" && (!sc.Client.SM || srv.Conns[0].Enabled)
			}) {
				e.Sleep(10 * time.Millisecond)
				c := srv.Conns[0]
				c.Dead = true
				c.closedByUs = true
				c.End.Reset()
				e.Fault("conn.reset_by_peer")
			}
		})
		connectErr, _ = e.Call("Connect", w.Client.Connect)
		established = len(srv.Conns) > 0 && srv.Conns[0].Established != ""
		e.Sleep(3*ka + time.Duration(sc.Client.ConnectTimeout+5)*time.Second)
		live = e.LiveTasks()
	})
	info := RunInfo{Scenario: sc, Nontrivial: established}
	if !established {
		e.Probe("precondition_failed")
		return info
	}
	e.Probe("c12.reset_at_start")
	if e.Stuck != "" {
		e.Violate("C12", "stuck", "%s", e.Stuck)
	}
	for _, p := range e.Panics {
		e.Violate("C12", "panic", "%s: %s", p.Where, p.Value)
	}
	// the session was announced (SessionEstablished): its loss must be announced too, once
	if countState(w.Events, xmpp.StateSessionEstablished) > 0 {
		if n := countState(w.Events, xmpp.StateDisconnected); n != 1 {
			e.Violate("C12", fmt.Sprintf("disconnected-events=%s", cnt(n)), "the peer reset the connection right after the session was announced (Connect returned %v): %d Disconnected events", connectErr, n)
		}
		if n := len(w.Errors); n != 1 {
			e.Violate("C12", fmt.Sprintf("error-callbacks=%s", cnt(n)), "the peer reset the connection right after the session was announced (Connect returned %v): %d ErrorHandler calls: %v", connectErr, n, w.Errors)
		}
	}
	for _, lt := range live {
		if lt.Harness {
			continue
		}
		e.Violate("C12", "goroutine-left:"+siteOf(lt), "library goroutine %s still alive after the loss\n%s\n%s", lt.Name, lt.Header, clip(lt.Stack, 1500))
	}
	return info
}
