package sim

import (
	"context"
	"fmt"
	"io"
	"sort"
	"strings"
	"time"

	xmpp "gosrc.io/xmpp"
	"gosrc.io/xmpp/stanza"
)

// C07 — IQ responses reach the SendIQ caller exactly once; duplicates and
// races are harmless.

type c07Req struct {
	ID      string `json:"id"`
	Task    int    `json:"task"`
	Ctx     string `json:"ctx"`    // open | cancel | timeout
	CtxMs   int    `json:"ctx_ms"` // when it ends (relative to the call), for cancel/timeout
	Read    string `json:"read"`   // now | later | abandon
	LaterMs int    `json:"later_ms"`
	Answer  string `json:"answer"` // once | delayed | twice | burst | never | foreign | error | at-ctx-end (arrives at the instant the context ends)
	DelayMs int    `json:"delay_ms"`
	Retry   bool   `json:"retry_with_same_id,omitempty"` // unanswered: once its context is over the caller asks again with the same id
}

type c07Scenario struct {
	Component       bool       `json:"component"`
	Client          ClientOpts `json:"client"`
	Reqs            []c07Req   `json:"requests"`
	Tasks           int        `json:"tasks"`
	Seg             int        `json:"segmentation"`
	LatencyNs       int64      `json:"latency_ns"`
	Dawdle          int        `json:"handler_dawdle"`
	AcrossReconnect bool       `json:"request_pending_across_reconnect,omitempty"`
	FailingWrite    bool       `json:"last_request_write_fails_while_its_answer_arrives,omitempty"`
	UnsolicitedWait bool       `json:"handler_of_an_unsolicited_result_waits_for_its_own_request,omitempty"`   // client only: routes run on their own goroutines, so a handler may wait for an answer
	BlockedExpire   bool       `json:"context_ends_while_the_write_is_blocked_then_the_write_fails,omitempty"` // a request whose write is held up by a peer that does not read, whose context ends meanwhile and whose write then fails (connection reset); the next session's request must still get its answer
	ClashingIDs     bool       `json:"two_pending_requests_with_one_id,omitempty"`
	HandlerIQ       int        `json:"handler_sends_iq"` // number of server requests whose handler issues a SendIQ of its own
}

type c07Resp struct {
	marker string // value of the from attribute, unique per response
	id     string
	sentAt time.Duration
}

type c07Got struct {
	req    string
	marker string
	id     string
	at     time.Duration
	closed bool // the channel was closed after the value
	extra  int  // further values read from the channel
}

func init() {
	register(&PropDef{
		ID:    "C07",
		Rule:  "scenario = (client or component; 1-4 application tasks issuing 1-6 SendIQ each with contexts left open / cancelled / timing out, callers reading at once / later / never; per request the server answers once / delayed / twice / twice back-to-back / never / with a foreign id / with type error; segmentation, latency, handler slowness); non-trivial = at least one response was delivered to the client while its request was pending; distinct = distinct (scenario hash, schedule hash)",
		Real:  []string{"Client.SendIQ / Component.SendIQ", "Router.route pending-request lookup and delivery", "Router.NewIQResultRoute and its context watcher", "recv loops, per-packet route goroutines"},
		Stub:  []string{"TCP (simnet)", "XMPP server (scripted model answering per plan)", "clock (synctest)", "goroutine scheduling (token scheduler, incl. PCT starvation of the caller)", "sync.RWMutex (equivalent shim)"},
		Run:   runC07,
		Reach: []string{"c07.answer_at_context_end", "c07.retry_with_same_id", "c07.peer_request_with_same_id", "c07.answered_across_reconnect", "c07.handler_sends_iq", "c07.answered_after_blocked_write_expired"},
	})
}

func runC07(e *Engine, g G, o RunOpt) RunInfo {
	sc := &c07Scenario{Client: DefaultClientOpts()}
	sc.Component = g.Pct("component", 30)
	sc.Tasks = g.Range("tasks", 1, 4)
	sc.Seg, sc.LatencyNs = netModes(g, e)
	if sc.LatencyNs > int64(10*time.Millisecond) {
		sc.LatencyNs = int64(3*time.Millisecond) + 1
		e.Net.Latency = time.Duration(sc.LatencyNs)
	}
	sc.Dawdle = g.N("dawdle", 3)
	sc.AcrossReconnect = !sc.Component && g.Pct("across-reconnect", 15)
	sc.FailingWrite = !sc.AcrossReconnect && g.Pct("failing-write", 12)
	sc.BlockedExpire = !sc.Component && !sc.AcrossReconnect && !sc.FailingWrite && g.Pct("blocked-expire", 12)
	sc.ClashingIDs = !sc.BlockedExpire && !o.Avoiding("two-pending-requests-with-one-id") && g.Pct("clashing-ids", 12)
	sc.UnsolicitedWait = !sc.Component && g.Pct("unsolicited-wait", 15)
	if g.Pct("handler-iq", 30) {
		sc.HandlerIQ = g.Range("handler-iq-n", 1, 3)
	}
	n := 0
	for t := 0; t < sc.Tasks; t++ {
		k := g.Range("nreq", 1, 6)
		if sc.Tasks > 2 && k > 3 {
			k = 3
		}
		for i := 0; i < k; i++ {
			n++
			r := c07Req{ID: fmt.Sprintf("q%d", n), Task: t}
			r.Ctx = []string{"open", "cancel", "timeout", "deadline-cancelled-early"}[g.Weighted("ctx", 5, 3, 3, 2)]
			r.CtxMs = []int{1, 7, 40, 300, 2000}[g.N("ctxms", 5)]
			r.Read = []string{"now", "later", "abandon"}[g.Weighted("read", 6, 2, 2)]
			r.LaterMs = []int{5, 60, 900}[g.N("laterms", 3)]
			r.Answer = []string{"once", "delayed", "twice", "burst", "never", "foreign", "error", "at-ctx-end", "peer-request-first"}[g.Weighted("answer", 6, 3, 3, 3, 2, 2, 2, 3, 2)]
			r.DelayMs = []int{2, 13, 120, 1100}[g.N("delayms", 4)]
			if r.Ctx != "open" && r.Read == "now" && g.Pct("retry", 25) {
				// the classic retry: no answer in time, same request (same id) again
				r.Answer = "never"
				r.Retry = true
			}
			if o.Avoiding("abandoned-channel-blocks-route") && r.Read == "abandon" {
				r.Read = "later"
			}
			sc.Reqs = append(sc.Reqs, r)
		}
	}

	var handled *[]Handled
	var router *xmpp.Router
	var sender xmpp.Sender
	var conn *SrvConn
	var srv *Server
	var cw *CW
	established := false
	var sent []c07Resp
	gots := map[string]*c07Got{}
	chans := map[string]chan stanza.IQ{}
	callErr := map[string]error{}
	written := map[string]time.Duration{}
	ctxEnd := map[string]time.Duration{} // when the context ended (sim time), -1 open
	plannedEnd := map[string]time.Duration{}
	type cancelAt struct {
		at time.Duration
		fn context.CancelFunc
		id string
	}
	var cancels []cancelAt
	tasksDone := 0
	reqByIDDyn := map[string]c07Req{}
	var pendingAtEnd []string
	var live []LiveTask
	probeHandled := false
	marker := 0

	var hq []string // handler-issued requests waiting for their reader
	onPacket := func(snd xmpp.Sender, p stanza.Packet) {
		iq, ok := p.(*stanza.IQ)
		if ok && iq.Id == "unsolicited-1" && sc.UnsolicitedWait {
			// a result nobody asked for (late, duplicate, or the server's own idea): its handler asks the
			// server something and waits for the answer - fine on a client, whose routes do not run on
			// the receive loop
			req, _ := stanza.NewIQ(stanza.Attrs{Type: stanza.IQTypeGet, Id: "hw-1", To: SimDomain})
			req.Payload = &stanza.Version{}
			ctx, cancel := context.WithTimeout(context.Background(), 3*time.Second+41*time.Microsecond)
			defer cancel()
			reqByIDDyn["hw-1"] = c07Req{ID: "hw-1", Ctx: "timeout", Read: "now", Answer: "once"}
			ctxEnd["hw-1"] = e.Now() + 3*time.Second + 41*time.Microsecond
			ch, err := snd.SendIQ(ctx, req)
			callErr["hw-1"] = err
			if err != nil || ch == nil {
				return
			}
			chans["hw-1"] = ch
			select {
			case v, ok := <-ch:
				e.Yield("handler.wait.read")
				if ok {
					gots["hw-1"] = &c07Got{req: "hw-1", marker: v.From, id: v.Id, at: e.Now(), closed: true}
					e.Logf("cb.handler", "handler of the unsolicited result got its answer from=%s", v.From)
				}
			case <-ctx.Done():
				e.Yield("handler.wait.timeout")
				e.Logf("cb.handler", "handler of the unsolicited result: no answer within 3 s")
			}
			return
		}
		if !ok || !strings.HasPrefix(iq.Id, "srvreq-") {
			return
		}
		id := "h-" + strings.TrimPrefix(iq.Id, "srvreq-")
		req, _ := stanza.NewIQ(stanza.Attrs{Type: stanza.IQTypeGet, Id: id, To: SimDomain})
		req.Payload = &stanza.Version{}
		ctx, cancel := context.WithCancel(context.Background())
		cancels = append(cancels, cancelAt{at: e.Now() + 24*time.Hour, fn: cancel, id: id})
		ctxEnd[id] = -1
		reqByIDDyn[id] = c07Req{ID: id, Ctx: "open", Read: "now", Answer: "once"}
		e.Logf("cb.handler", "handler issues SendIQ %s", id)
		ch, err := snd.SendIQ(ctx, req)
		callErr[id] = err
		if err == nil && ch != nil {
			chans[id] = ch
			hq = append(hq, id)
		}
	}
	resp := func(id, typ string) (string, c07Resp) {
		marker++
		m := fmt.Sprintf("resp%d@%s", marker, SimDomain)
		payload := "<query xmlns='jabber:iq:version'><name>n</name></query>"
		if typ == "error" {
			payload = "<error type='cancel'><service-unavailable xmlns='" + nsStanzas + "'/></error>"
		}
		return fmt.Sprintf("<iq id='%s' type='%s' from='%s'>%s</iq>", id, typ, m, payload), c07Resp{marker: m, id: id}
	}

	e.Run(func() {
		prepSrv := func(s *Server) {
			srv = s
			plan := map[string]c07Req{}
			for _, r := range sc.Reqs {
				plan[r.ID] = r
			}
			s.OnElem = func(c *SrvConn, el *Elem) bool {
				if el.Local != "iq" || (el.Attr("type") != "get" && el.Attr("type") != "set") {
					return false
				}
				id := el.Attr("id")
				if _, again := written[id]; again && plan[id].Retry {
					// the retry of an unanswered request: answered at once
					rid := id + "#retry"
					written[rid] = e.Now()
					raw, rs := resp(id, "result")
					rs.id = rid
					rs.sentAt = e.Now()
					sent = append(sent, rs)
					c.Send(raw)
					return true
				}
				written[id] = e.Now()
				r, ok := plan[id]
				if !ok && (strings.HasPrefix(id, "h-") || id == "hw-1") {
					r, ok = c07Req{ID: id, Answer: "once"}, true
				}
				if !ok {
					return false
				}
				emit := func(d time.Duration, id, typ string) {
					raw, rs := resp(id, typ)
					rs.sentAt = e.Now() + d
					sent = append(sent, rs)
					if d == 0 {
						c.Send(raw)
					} else {
						c.SendAfter(d, raw)
					}
				}
				delay := time.Duration(r.DelayMs)*time.Millisecond + 333*time.Microsecond
				switch r.Answer {
				case "once":
					emit(0, id, "result")
				case "delayed":
					emit(delay, id, "result")
				case "twice":
					emit(0, id, "result")
					emit(delay, id, "result")
				case "burst":
					raw1, r1 := resp(id, "result")
					raw2, r2 := resp(id, "result")
					r1.sentAt, r2.sentAt = e.Now(), e.Now()
					sent = append(sent, r1, r2)
					c.Send(raw1 + raw2)
				case "foreign":
					emit(0, "foreign-"+id, "result")
				case "error":
					emit(0, id, "error")
				case "peer-request-first":
					// the peer happens to use the same id for a request of its own (ids are only unique per
					// sender): that is no response; the response follows
					c.Send(fmt.Sprintf("<iq id='%s' type='get' from='req-%s@%s'><query xmlns='jabber:iq:version'/></iq>", id, id, SimDomain))
					e.Probe("c07.peer_request_with_same_id")
					emit(0, id, "result")
				case "at-ctx-end":
					// the answer reaches the client at the very instant the context of its request ends
					d := time.Duration(0)
					if pe, ok := plannedEnd[id]; ok {
						if d = pe - e.Now() - time.Duration(sc.LatencyNs); d < 0 {
							d = 0
						}
						e.Probe("c07.answer_at_context_end")
					}
					emit(d, id, "result")
				}
				return true
			}
		}
		if sc.Component {
			w, s, c, ok := StartComponent(e, "s3cr3t", DefaultNeg(), func(w *CompW, s *Server) {
				w.Dawdle = sc.Dawdle
				w.OnPacket = onPacket
				w.CatchAll()
				prepSrv(s)
			})
			handled = &w.Handled
			router = w.Router
			if !ok {
				return
			}
			sender = w.Comp
			conn = c
			_ = s
		} else {
			s, ok := StartClient(e, sc.Client, []NegScript{DefaultNeg()}, func(w *CW, s *Server) {
				w.Dawdle = sc.Dawdle
				w.OnPacket = onPacket
				w.CatchAll()
				prepSrv(s)
			})
			handled = &s.W.Handled
			cw = s.W
			router = s.W.Router
			if !ok {
				return
			}
			sender = s.W.Client
			conn = s.Conn
		}
		established = true
		e.Go("srv-timer", srv.RunDelayed)
		cancelDone := false
		e.Go("canceller", func() {
			for {
				e.WaitUntil("canceller", func() bool { return len(cancels) > 0 || cancelDone })
				if len(cancels) == 0 {
					return
				}
				sort.SliceStable(cancels, func(i, j int) bool { return cancels[i].at < cancels[j].at })
				c := cancels[0]
				if wait := c.at - e.Now(); wait > 0 {
					n := len(cancels)
					e.WaitUntilFor("canceller.sleep", wait, func() bool { return len(cancels) != n })
					continue
				}
				cancels = cancels[1:]
				e.Logf("app.cancel", "context of %s", c.id)
				ctxEnd[c.id] = e.Now()
				c.fn()
				e.Yield("cancelled")
			}
		})
		for t := 0; t < sc.Tasks; t++ {
			t := t
			e.Go(fmt.Sprintf("app%d", t), func() {
				defer func() { tasksDone++ }()
				for _, r := range sc.Reqs {
					if r.Task != t {
						continue
					}
					r := r
					ctx := context.Background()
					var cancel context.CancelFunc
					ctxEnd[r.ID] = -1
					switch r.Ctx {
					case "open", "cancel":
						ctx, cancel = context.WithCancel(ctx)
						at := e.Now() + 24*time.Hour
						if r.Ctx == "cancel" {
							at = e.Now() + time.Duration(r.CtxMs)*time.Millisecond + 777*time.Microsecond
							plannedEnd[r.ID] = at
						}
						cancels = append(cancels, cancelAt{at: at, fn: cancel, id: r.ID})
					case "timeout":
						d := time.Duration(r.CtxMs)*time.Millisecond + 777*time.Microsecond
						ctx, cancel = context.WithTimeout(ctx, d)
						ctxEnd[r.ID] = e.Now() + d
						plannedEnd[r.ID] = e.Now() + d
						_ = cancel
					case "deadline-cancelled-early":
						// a context with a far deadline that the caller cancels itself, much earlier
						ctx, cancel = context.WithTimeout(ctx, time.Hour+13*time.Microsecond)
						plannedEnd[r.ID] = e.Now() + time.Duration(r.CtxMs)*time.Millisecond + 777*time.Microsecond
						cancels = append(cancels, cancelAt{at: plannedEnd[r.ID], fn: cancel, id: r.ID})
					}
					iq, _ := stanza.NewIQ(stanza.Attrs{Type: stanza.IQTypeGet, Id: r.ID, To: SimDomain})
					iq.Payload = &stanza.Version{}
					var ch chan stanza.IQ
					err, _ := e.Call("SendIQ "+r.ID, func() error {
						var err error
						ch, err = sender.SendIQ(ctx, iq)
						return err
					})
					callErr[r.ID] = err
					if err != nil || ch == nil {
						continue
					}
					chans[r.ID] = ch
					read := func(limit time.Duration) {
						got := &c07Got{req: r.ID}
						// a value that is already there wins over an ended context (a
						// select with several ready cases would be decided by the runtime)
						var v stanza.IQ
						var ok, have bool
						select {
						case v, ok = <-ch:
							have = true
						default:
						}
						if !have {
							select {
							case v, ok = <-ch:
								have = true
							case <-ctx.Done():
								e.Yield("app.ctxdone")
								e.Logf("app.ctxdone", "%s", r.ID)
								return
							case <-time.After(limit):
								e.Yield("app.readtimeout")
								e.Logf("app.readtimeout", "%s", r.ID)
								return
							}
						}
						switch {
						case have:
							e.Yield("app.read")
							if !ok {
								e.Logf("app.chan", "%s: channel closed without a value", r.ID)
								gots[r.ID] = &c07Got{req: r.ID, closed: true, marker: ""}
								return
							}
							got.marker, got.id, got.at = v.From, v.Id, e.Now()
							e.Logf("app.recv", "%s got iq id=%s from=%s type=%s", r.ID, v.Id, v.From, v.Type)
							gots[r.ID] = got
							// the channel must now be closed
							for i := 0; i < 3; i++ {
								select {
								case v2, ok2 := <-ch:
									e.Yield("app.read2")
									if !ok2 {
										got.closed = true
										return
									}
									got.extra++
									e.Logf("app.recv", "%s got a further iq from=%s", r.ID, v2.From)
								case <-time.After(2*time.Second + 11*time.Microsecond):
									e.Yield("app.read2.timeout")
									return
								}
							}
						}
					}
					switch r.Read {
					case "now":
						read(5*time.Second + 17*time.Microsecond)
						if r.Retry && gots[r.ID] == nil && ctx.Err() != nil {
							rid := r.ID + "#retry"
							ctx2, cancel2 := context.WithCancel(context.Background())
							cancels = append(cancels, cancelAt{at: e.Now() + 24*time.Hour, fn: cancel2, id: rid})
							ctxEnd[rid] = -1
							reqByIDDyn[rid] = c07Req{ID: rid, Ctx: "open", Read: "now", Answer: "once"}
							iq2, _ := stanza.NewIQ(stanza.Attrs{Type: stanza.IQTypeGet, Id: r.ID, To: SimDomain})
							iq2.Payload = &stanza.Version{}
							var ch2 chan stanza.IQ
							err2, _ := e.Call("SendIQ "+rid, func() error {
								var err error
								ch2, err = sender.SendIQ(ctx2, iq2)
								return err
							})
							callErr[rid] = err2
							e.Probe("c07.retry_with_same_id")
							if err2 == nil && ch2 != nil {
								chans[rid] = ch2
								select {
								case v, ok := <-ch2:
									e.Yield("app.retry.read")
									if ok {
										gots[rid] = &c07Got{req: rid, marker: v.From, id: v.Id, at: e.Now(), closed: true}
										e.Logf("app.recv", "%s got iq id=%s from=%s", rid, v.Id, v.From)
									} else {
										e.Logf("app.chan", "%s: channel closed without a value", rid)
									}
								case <-time.After(10*time.Second + 23*time.Microsecond):
									e.Yield("app.retry.timeout")
									e.Logf("app.readtimeout", "%s", rid)
								}
							}
						}
					case "later":
						e.Sleep(time.Duration(r.LaterMs)*time.Millisecond + 91*time.Microsecond)
						read(5*time.Second + 17*time.Microsecond)
					}
				}
			})
		}
		if sc.HandlerIQ > 0 {
			hdone := false
			e.Go("hreader", func() {
				for k := 0; k < sc.HandlerIQ; k++ {
					if e.WaitUntilFor("hreader", 30*time.Second, func() bool { return len(hq) > 0 || hdone }) || len(hq) == 0 {
						return
					}
					id := hq[0]
					hq = hq[1:]
					ch := chans[id]
					select {
					case v, ok := <-ch:
						e.Yield("hreader.read")
						if ok {
							g := &c07Got{req: id, marker: v.From, id: v.Id, at: e.Now()}
							gots[id] = g
							e.Logf("app.recv", "%s (issued by a handler) got iq from=%s", id, v.From)
							select {
							case _, ok2 := <-ch:
								e.Yield("hreader.read2")
								g.closed = !ok2
							case <-time.After(2*time.Second + 29*time.Microsecond):
								e.Yield("hreader.read2.timeout")
							}
						}
					case <-time.After(8*time.Second + 31*time.Microsecond):
						e.Yield("hreader.timeout")
						e.Logf("app.readtimeout", "%s (issued by a handler)", id)
					}
				}
			})
			for k := 0; k < sc.HandlerIQ; k++ {
				e.Sleep(time.Duration(3+k)*time.Millisecond + 19*time.Microsecond)
				if !conn.Dead {
					conn.Send(fmt.Sprintf("<iq id='srvreq-%d' type='get' from='%s'><query xmlns='jabber:iq:version'/></iq>", k+1, SimDomain))
				}
			}
			defer func() { hdone = true }()
			e.Probe("c07.handler_sends_iq")
		}
		e.WaitUntilFor("tasks", 5*time.Minute, func() bool { return tasksDone == sc.Tasks })
		e.Sleep(5 * time.Second)
		if sc.UnsolicitedWait && !conn.Dead {
			conn.Send(fmt.Sprintf("<iq id='unsolicited-1' type='result' from='%s'/>", SimDomain))
			e.Sleep(6 * time.Second)
			e.Probe("c07.handler_of_unsolicited_result_waits")
		}
		if sc.AcrossReconnect && cw != nil {
			// a request is still pending when the connection is lost; the application resumes; the
			// answer arrives on the new connection: it is still that request's answer
			id := "qx"
			iq, _ := stanza.NewIQ(stanza.Attrs{Type: stanza.IQTypeGet, Id: id, To: SimDomain})
			iq.Payload = &stanza.Version{}
			ctx, cancel := context.WithCancel(context.Background())
			cancels = append(cancels, cancelAt{at: e.Now() + 24*time.Hour, fn: cancel, id: id})
			ctxEnd[id] = -1
			var ch chan stanza.IQ
			err, _ := e.Call("SendIQ "+id, func() error {
				var err error
				ch, err = sender.SendIQ(ctx, iq)
				return err
			})
			if err == nil && ch != nil {
				e.Sleep(50 * time.Millisecond)
				nd := countState(cw.Events, xmpp.StateDisconnected)
				conn.Pipe.Cli.CutAt = conn.End.TotalWritten
				conn.Pipe.Cli.CutErr = io.EOF
				if !e.WaitUntilFor("lost", time.Minute, func() bool { return countState(cw.Events, xmpp.StateDisconnected) > nd }) {
					e.Sleep(time.Second)
					rerr, _ := e.Call("Resume", cw.Client.Resume)
					if rerr == nil && len(srv.Conns) == 2 {
						conn = srv.Conns[1]
						e.Sleep(100 * time.Millisecond)
						raw, rs := resp(id, "result")
						rs.sentAt = e.Now()
						conn.Send(raw)
						select {
						case v, ok := <-ch:
							e.Yield("across.read")
							if ok && v.From == rs.marker {
								e.Probe("c07.answered_across_reconnect")
							} else {
								e.Violate("C07", "response-missed-caller:across-reconnect", "request %s was pending across a reconnection; got %v (ok=%v), expected its answer %s", id, v.From, ok, rs.marker)
							}
						case <-time.After(10*time.Second + 37*time.Microsecond):
							e.Yield("across.timeout")
							e.Violate("C07", "response-missed-caller:across-reconnect", "request %s was pending across a reconnection; its answer arrived on the new connection but never reached the caller", id)
						}
					}
				}
			}
		}
		if sc.BlockedExpire && cw != nil && !conn.Dead {
			// The peer stops reading; a request is written into the full window and blocks; its context
			// ends while it is blocked (the pending entry is cleaned up); then the connection is reset
			// and the write fails (the failure path cleans up once more). The bookkeeping of pending
			// requests must have survived that: the request of the next session gets its answer.
			conn.End.RecvWindow = 700
			conn.PauseReads = true
			iq, _ := stanza.NewIQ(stanza.Attrs{Type: stanza.IQTypeGet, Id: "qbx", To: SimDomain})
			iq.Payload = &stanza.Version{Name: strings.Repeat("n", 5000)}
			bctx, bcancel := context.WithTimeout(context.Background(), 2*time.Second+43*time.Microsecond)
			bdone := false
			var berr error
			e.Go("blocked-sender", func() {
				berr, _ = e.Call("SendIQ qbx (blocks)", func() error {
					_, err := sender.SendIQ(bctx, iq)
					return err
				})
				bdone = true
			})
			e.Sleep(6 * time.Second)
			nd := countState(cw.Events, xmpp.StateDisconnected)
			wasBlocked := !bdone
			conn.End.Reset()
			conn.PauseReads = false
			e.WaitUntilFor("blocked-sender", time.Minute, func() bool { return bdone })
			bcancel()
			if wasBlocked && bdone && berr != nil && !e.WaitUntilFor("lost", time.Minute, func() bool { return countState(cw.Events, xmpp.StateDisconnected) > nd }) {
				e.Sleep(time.Second)
				rerr, _ := e.Call("Resume", cw.Client.Resume)
				if rerr == nil && len(srv.Conns) == 2 {
					conn = srv.Conns[1]
					e.Sleep(100 * time.Millisecond)
					id := "qby"
					iq, _ := stanza.NewIQ(stanza.Attrs{Type: stanza.IQTypeGet, Id: id, To: SimDomain})
					iq.Payload = &stanza.Version{}
					ctx, cancel := context.WithCancel(context.Background())
					cancels = append(cancels, cancelAt{at: e.Now() + 24*time.Hour, fn: cancel, id: id})
					ctxEnd[id] = -1
					var ch chan stanza.IQ
					err, _ := e.Call("SendIQ "+id, func() error {
						var err error
						ch, err = sender.SendIQ(ctx, iq)
						return err
					})
					if err == nil && ch != nil {
						e.Sleep(50 * time.Millisecond)
						raw, rs := resp(id, "result")
						conn.Send(raw)
						select {
						case v, ok := <-ch:
							e.Yield("blockedexpire.read")
							if ok && v.From == rs.marker {
								e.Probe("c07.answered_after_blocked_write_expired")
							} else {
								e.Violate("C07", "response-missed-caller:after-blocked-write", "request %s of the session after a request whose context ended during its blocked, then failing write: got %v (ok=%v), expected its answer %s", id, v.From, ok, rs.marker)
							}
						case <-time.After(10*time.Second + 37*time.Microsecond):
							e.Yield("blockedexpire.timeout")
							e.Violate("C07", "response-missed-caller:after-blocked-write", "request %s (the only pending one) of the session after a request whose context ended during its blocked, then failing write: its answer arrived and never reached the caller", id)
						}
					}
				}
			}
		}
		if sc.ClashingIDs && !conn.Dead {
			// Two requests with the same id are pending at once (ids are the application's; a counter
			// restarted, two modules counting on their own). The peer answers both. Which answer belongs to
			// which request nobody can tell - but while a request with that id is pending, a response with
			// that id is its answer, not a packet for the ordinary routes; every response is consumed once,
			// no channel delivers twice, nothing crashes.
			type clashGot struct {
				from   string
				n      int
				closed bool
			}
			cg := make([]clashGot, 2)
			cdone := 0
			cok := 0
			for k := 0; k < 2; k++ {
				k := k
				e.Go(fmt.Sprintf("clash%d", k), func() {
					defer func() { cdone++ }()
					iq, _ := stanza.NewIQ(stanza.Attrs{Type: stanza.IQTypeGet, Id: "qc", To: SimDomain})
					iq.Payload = &stanza.Version{}
					ctx, cancel := context.WithCancel(context.Background())
					defer cancel()
					var ch chan stanza.IQ
					err, _ := e.Call(fmt.Sprintf("SendIQ qc (#%d of two with this id)", k), func() error {
						var err error
						ch, err = sender.SendIQ(ctx, iq)
						return err
					})
					if err != nil || ch == nil {
						return
					}
					cok++
					tm := time.After(12*time.Second + time.Duration(47+k)*time.Microsecond)
					for {
						select {
						case v, ok := <-ch:
							e.Yield("clash.read")
							if !ok {
								cg[k].closed = true
								return
							}
							cg[k].n++
							cg[k].from = v.From
							e.Logf("app.recv", "clash#%d got iq id=%s from=%s", k, v.Id, v.From)
						case <-tm:
							e.Yield("clash.timeout")
							return
						}
					}
				})
			}
			nreq := func() int {
				n := 0
				for _, r := range conn.Elements() {
					if el := r.Item.Elem; el.Local == "iq" && el.Attr("id") == "qc" && el.Attr("type") == "get" {
						n++
					}
				}
				return n
			}
			if !e.WaitUntilFor("clash-requests", 30*time.Second, func() bool { return nreq() == 2 && cok == 2 }) {
				for k := 1; k <= 2; k++ {
					conn.Send(fmt.Sprintf("<iq id='qc' type='result' from='clash%d@%s'><query xmlns='jabber:iq:version'><name>n</name></query></iq>", k, SimDomain))
					e.Sleep(time.Second + 3*time.Microsecond)
				}
				e.WaitUntilFor("clash-readers", time.Minute, func() bool { return cdone == 2 })
				routed := map[string]int{}
				for _, h := range *handled {
					if h.Kind == "iq" && strings.HasPrefix(h.From, "clash") {
						routed[h.From]++
					}
				}
				for k := 0; k < 2; k++ {
					if cg[k].n > 1 {
						e.Violate("C07", "channel-delivered-twice:clashing-ids", "request #%d of two pending with id qc got %d values on its channel", k, cg[k].n)
					}
				}
				for m := 1; m <= 2; m++ {
					from := fmt.Sprintf("clash%d@%s", m, SimDomain)
					inChan := 0
					for k := 0; k < 2; k++ {
						if cg[k].from == from {
							inChan++
						}
					}
					switch {
					case inChan+routed[from] > 1:
						e.Violate("C07", "delivered-and-routed:clashing-ids", "response %s to id qc was consumed %d times (channels %d, ordinary handlers %d)", from, inChan+routed[from], inChan, routed[from])
					case inChan == 0:
						e.Violate("C07", "response-missed-caller:clashing-ids", "two requests with id qc were pending, the peer answered both; response %s reached no caller (ordinary handlers: %d) - callers got %q and %q", from, routed[from], cg[0].from, cg[1].from)
					}
				}
				e.Probe("c07.two_pending_requests_with_one_id")
			}
		}
		// end every context that is still open
		for len(cancels) > 0 {
			c := cancels[0]
			cancels = cancels[1:]
			ctxEnd[c.id] = e.Now()
			c.fn()
			e.Yield("final-cancel")
		}
		cancelDone = true
		srv.StopDelayed = true
		e.Sleep(5 * time.Second)
		// drain abandoned channels (what the library delivered but nobody read)
		for _, r := range sc.Reqs {
			ch := chans[r.ID]
			if ch == nil || gots[r.ID] != nil {
				continue
			}
			select {
			case v, ok := <-ch:
				e.Yield("drain")
				if ok {
					gots[r.ID] = &c07Got{req: r.ID, marker: v.From, id: v.Id, at: e.Now(), closed: true}
					e.Logf("app.drain", "%s held iq from=%s", r.ID, v.From)
				}
			default:
			}
		}
		e.Sleep(time.Second)
		// packet processing must still work: a probe stanza reaches the handler
		if !conn.Dead {
			conn.Send("<message id='probe' from='probe@" + SimDomain + "'><body>still there?</body></message>")
		}
		e.Sleep(10 * time.Second)
		for _, h := range *handled {
			if h.Kind == "message" && h.ID == "probe" {
				probeHandled = true
			}
		}
		pendingAtEnd = xmpp.VerifPendingIQ(router)
		live = e.LiveTasks()
		if sc.FailingWrite && !conn.Dead {
			// Last of all (it breaks the connection): the write of a request fails while an element
			// carrying its id is already arriving. Whatever becomes of that element, nothing may crash.
			id := "qfw"
			raw, _ := resp(id, "result")
			ce := conn.Pipe.Cli
			ce.FailWriteAt = ce.Writes + 1
			conn.Send(raw)
			iq, _ := stanza.NewIQ(stanza.Attrs{Type: stanza.IQTypeGet, Id: id, To: SimDomain})
			iq.Payload = &stanza.Version{}
			ctx, cancel := context.WithCancel(context.Background())
			e.Call("SendIQ "+id+" (write fails)", func() error {
				_, err := sender.SendIQ(ctx, iq)
				return err
			})
			e.Sleep(time.Second)
			cancel()
			e.Sleep(time.Duration(sc.Client.ConnectTimeout+2) * time.Second)
			e.Probe("c07.write_fails_while_answer_arrives")
		}
	})

	info := RunInfo{Scenario: sc}
	if !established {
		e.Probe("precondition_failed")
		return info
	}
	for _, r := range sc.Reqs {
		if r.Read == "abandon" {
			info.Triggers = append(info.Triggers, "abandoned-channel-blocks-route")
			break
		}
	}
	if e.Stuck != "" {
		e.Violate("C07", "stuck", "%s", e.Stuck)
	}
	for _, p := range e.Panics {
		e.Violate("C07", "panic:"+panicClass(p), "%s: %s\n%s", p.Where, p.Value, clip(p.Stack, 1500))
	}
	reqByID := map[string]c07Req{}
	for _, r := range sc.Reqs {
		reqByID[r.ID] = r
	}
	for id, r := range reqByIDDyn {
		reqByID[id] = r
	}
	// accounting: every response is consumed exactly once, by the right party
	byChan := map[string]string{} // marker -> request id that received it
	for id, gt := range gots {
		if gt.marker != "" {
			byChan[gt.marker] = id
		}
		if gt.extra > 0 {
			e.Violate("C07", "channel-delivered-twice", "the channel of %s delivered %d values", id, 1+gt.extra)
		}
		if gt.marker != "" && !gt.closed {
			e.Violate("C07", "channel-not-closed", "the channel of %s was not closed after its response", id)
		}
	}
	byHandler := map[string]int{}
	for _, h := range *handled {
		if h.Kind == "iq" && strings.HasPrefix(h.From, "resp") {
			byHandler[h.From]++
		}
	}
	// Candidates for delivery to the caller: the responses to a request that
	// arrive at the earliest instant. A client routes packets concurrently, so
	// any one of several responses arriving together may win; a component
	// routes in arrival order, so the first one must.
	earliest := map[string]time.Duration{}
	for _, rs := range sent {
		if _, isReq := reqByID[rs.id]; !isReq {
			continue
		}
		if t, ok := earliest[rs.id]; !ok || rs.sentAt < t {
			earliest[rs.id] = rs.sentAt
		}
	}
	seenFirst := map[string]bool{}
	candDelivered := map[string]int{}
	nontrivial := false
	for _, rs := range sent {
		inChan := byChan[rs.marker]
		nh := byHandler[rs.marker]
		rq, isReq := reqByID[rs.id]
		if inChan != "" && inChan != rs.id {
			e.Violate("C07", "delivered-to-wrong-request", "response %s (id %s) was delivered on the channel of %s", rs.marker, rs.id, inChan)
		}
		if inChan != "" && nh > 0 {
			e.Violate("C07", "delivered-and-routed", "response %s (id %s) reached the caller and also %d ordinary handler(s)", rs.marker, rs.id, nh)
		}
		if nh > 1 {
			e.Violate("C07", "routed-twice", "response %s (id %s) reached %d handlers", rs.marker, rs.id, nh)
		}
		if inChan == "" && nh == 0 {
			e.Violate("C07", "response-lost:"+rq.Read, "response %s (id %s) reached neither a caller nor a handler", rs.marker, rs.id)
		}
		if !isReq {
			continue
		}
		cand := rs.sentAt == earliest[rs.id]
		first := !seenFirst[rs.id]
		seenFirst[rs.id] = true
		if end, ok := ctxEnd[rs.id]; ok && inChan != "" && end >= 0 && rs.sentAt+time.Duration(sc.LatencyNs) > end+time.Millisecond {
			e.Violate("C07", "late-response-delivered-to-caller:"+rq.Ctx, "response %s to %s arrived at %v, its context had ended at %v, yet it was put on the request's channel instead of being routed like any other packet", rs.marker, rs.id, rs.sentAt+time.Duration(sc.LatencyNs), end)
		}
		if inChan != "" {
			if !cand {
				e.Violate("C07", "duplicate-delivered-to-caller", "late duplicate %s to %s was delivered on the channel", rs.marker, rs.id)
			} else {
				candDelivered[rs.id]++
				if sc.Component && !first {
					e.Violate("C07", "component-delivered-second", "the component delivered %s to %s although an earlier response with that id arrived first", rs.marker, rs.id)
				}
			}
		}
	}
	for id, t0 := range earliest {
		rq := reqByID[id]
		if _, wasSent := written[id]; !wasSent || callErr[id] != nil {
			continue
		}
		end := ctxEnd[id]
		arrive := t0 + time.Duration(sc.LatencyNs)
		if end >= 0 && arrive+time.Millisecond >= end {
			continue // racing with the end of the context: either outcome is fine
		}
		nontrivial = true
		if candDelivered[id] != 1 {
			e.Violate("C07", fmt.Sprintf("response-missed-caller:%s:%s", rq.Answer, rq.Read), "request %s: context alive until %v, first response arrived %v, but %d responses were delivered on its channel", id, end, arrive, candDelivered[id])
		}
	}
	if len(pendingAtEnd) > 0 {
		e.Violate("C07", "pending-entry-left", "pending-request table still holds %v after every context ended", pendingAtEnd)
	}
	if !probeHandled {
		cls := "client-recv-blocked"
		if sc.Component {
			cls = "component-recv-blocked"
		}
		e.Violate("C07", cls, "a stanza sent after the workload never reached its handler: packet processing is blocked (blocked tasks: %v)", e.BlockedTasks())
	}
	for _, lt := range live {
		if lt.Harness {
			continue
		}
		if strings.Contains(lt.Stack, "Router).route") && strings.Contains(lt.Header, "chan send") {
			e.Violate("C07", "blocked-after-context-end", "a routing goroutine is still blocked delivering a response although every context has ended\n%s", lt.Header)
			break
		}
	}
	info.Nontrivial = nontrivial
	if len(sc.Reqs) >= 6 {
		e.Probe("c07.many_requests")
	}
	return info
}

func panicClass(p PanicRec) string {
	v := p.Value
	switch {
	case strings.Contains(v, "send on closed channel"):
		return "send-on-closed-channel"
	case strings.Contains(v, "close of closed channel"):
		return "close-of-closed-channel"
	}
	return panicSite(p)
}
