package sim

import (
	"crypto/tls"
	"encoding/base64"
	"fmt"
	"io"
	"net"
	"strings"
	"time"
)

// Scripted XMPP server model. One reactive reader task per accepted
// connection; other harness tasks (the scenario driver) inject traffic and
// faults through SrvConn methods. Replies come from templates with the
// harness' own escaping; client bytes are observed through the Splitter.

// Reply alphabets (0 is always the plain success variant).
const (
	HdrOK     = iota
	HdrOKDecl // with XML declaration, whitespace, attribute reordering
	HdrWrongRoot
	HdrMalformed
	HdrClose
	HdrStreamError // valid header, then <stream:error/> instead of features
	HdrStreamEnd   // valid header, then </stream:stream> instead of features; the TCP connection stays open
	HdrOKForeignID // valid header that also carries attributes called id in other namespaces (xml:id, x:id)
)

const (
	TLSNone = iota
	TLSOffered
	TLSRequired
)

const (
	TLSProceed = iota
	TLSFailure
	TLSUnexpected
	TLSMalformed
	TLSClose
	TLSStreamEnd // </stream:stream>, and the TCP connection stays open
)

const (
	CertGood = iota
	CertWrongHost
	CertUntrusted
	CertExpired
	CertAbort
	CertAltName // valid for "alt.example" only
	CertBoth    // valid for the domain and for "alt.example"
)

const (
	AuthSuccess = iota
	AuthFailure
	AuthChallenge
	AuthStanza
	AuthMalformed
	AuthClose
	AuthStreamEnd // </stream:stream>, and the TCP connection stays open
	AuthSloppy    // <success/> that is not well-formed XML although a lenient parser would take it (unquoted attribute value)
)

const (
	SessAbsent = iota
	SessOptional
	SessMandatory
)

const (
	ResumeOK = iota
	ResumeOtherID
	ResumeFailed
	ResumeUnexpected
	ResumeClose
	ResumeNoPrevid   // <resumed/> without previd: confirms no particular session
	ResumeStreamEnd  // </stream:stream> in answer to <resume/> (the TCP connection is closed right after)
	ResumeUnreadable // a well-formed element the stream parser itself rejects (scr.ResumeAlt picks which)
)

const (
	BindOK = iota
	BindError
	BindErrorEcho
	BindEmptyResult
	BindOther
	BindClose
	BindStreamEnd // </stream:stream>, and the TCP connection stays open
	BindInMessage // the bind payload inside a <message type='result'/>: not an IQ, so no answer to the request
	BindForeignID // an IQ result with the payload, but for another request id
	BindNoJid     // an IQ result whose <bind/> carries no JID: nothing was bound
	BindForeignNS // the result is an <iq/> of another namespace, not a stanza of this stream
	BindSloppy    // the right result, but not well-formed XML (an entity XML does not define; an unquoted attribute value)
)

const (
	SessionOK = iota
	SessionError
	SessionOther
	SessionClose
	SessionStreamEnd  // </stream:stream>, and the TCP connection stays open
	SessionInPresence // <presence type='result'/>: not an IQ
	SessionForeignID  // an IQ result for another request id
)

const (
	EnableOK = iota
	EnableNoResume
	EnableFailed
	EnableOther
	EnableClose
	EnableFailedEmpty // <failed/> without a condition child
)

// NegScript is the server's behaviour on one connection.
type NegScript struct {
	Header          int      `json:"header"`
	Header2         int      `json:"header_after_tls"`
	Header3         int      `json:"header_after_auth"`
	StartTLS        int      `json:"starttls"`
	Mechs           []string `json:"mechs"`
	MechsTLS        []string `json:"mechs_after_tls,omitempty"` // if set, the list advertised once TLS is up
	ExtraFeats      bool     `json:"extra_features"`
	ForeignMechKids []string `json:"mechanism_children_of_another_namespace,omitempty"` // inside the SASL <mechanisms/>: <x:mechanism xmlns:x='urn:example:other'>NAME</x:mechanism> (an extension, not an offer)
	ForeignMechs    []string `json:"mechanisms_in_another_namespace,omitempty"`         // a <mechanisms/> feature of another protocol (e.g. urn:xmpp:sasl:1) listing these names
	TLSReply        int      `json:"tls_reply"`
	Cert            int      `json:"cert"`
	TLS12           bool     `json:"tls_1_2_only,omitempty"` // the server does not speak TLS 1.3
	TLS13Only       bool     `json:"tls_1_3_only,omitempty"` // the server refuses anything below TLS 1.3 (alert protocol_version)
	AuthReply       int      `json:"auth_reply"`
	AuthCond        string   `json:"auth_cond,omitempty"`
	ResumeOne       bool     `json:"enabled_resume_spelled_1,omitempty"` // <enabled resume='1'/>: the other legal spelling of an XML boolean
	AuthFailDrop    int      `json:"after_auth_failure,omitempty"`       // after <failure/>: 1 = the server ends the stream and closes, 2 = it resets the connection once the client has read the failure
	Session         int      `json:"session"`
	SM              bool     `json:"sm"`
	Resume          int      `json:"resume_reply"`
	ResumeAlt       int      `json:"resume_reply_variant,omitempty"`
	ResumedH        int      `json:"resumed_h,omitempty"`                             // the h of <resumed/>: what the server says it has handled
	ProbeOnClose    bool     `json:"request_before_answering_stream_close,omitempty"` // when the client closes its stream before a session exists, the server first sends an IQ request
	Bind            int      `json:"bind_reply"`
	SessionRep      int      `json:"session_reply"`
	Enable          int      `json:"enable_reply"`
	SMId            string   `json:"sm_id"`
	SMLocation      string   `json:"sm_location,omitempty"`
	Prefixed        bool     `json:"prefixed_syntax"` // harmless syntax variation of success replies
	Spaces          bool     `json:"whitespace_between"`
	DelayMs         int      `json:"reply_delay_ms"`
	StreamID        string   `json:"stream_id"`
	AutoAckR        bool     `json:"auto_ack"` // answer <r/> like a real server
	ProceedTrailer  string   `json:"clear_text_injected_behind_proceed,omitempty"`
	// the k-th write of the client after the server has sent <resumed/> fails (the connection breaks while
	// the held stanzas are being sent again); 0: none
	FailWriteAfterResumed int `json:"client_write_fails_after_resumed,omitempty"`
}

// ResumeUnreadableReplies are answers to <resume/> that are neither <resumed/> nor <failed/> of
// urn:xmpp:sm:3 and that stanza.NextPacket reports as an error rather than as a packet.
var ResumeUnreadableReplies = []string{
	"<failed xmlns='urn:xmpp:sm:2'/>",
	"<challenge xmlns='" + nsSASL + "'>Zm9v</challenge>",
	"<resume-later xmlns='" + nsSM + "'/>",
	"<resumed xmlns='urn:xmpp:sm:2' previd='sm-1' h='0'/>",
	"<ping xmlns='urn:xmpp:ping'/>",
}

func DefaultNeg() NegScript {
	return NegScript{Mechs: []string{"PLAIN"}, Session: SessAbsent, StreamID: "s1", SMId: "sm-1"}
}

type RecvElem struct {
	Seq   int // event sequence number at reception
	At    time.Duration
	Item  *Item
	Phase int // 0 clear text before auth, 1 inside TLS before auth, 2 after auth
	TLS   bool
}

type Server struct {
	e       *Engine
	Domain  string
	Scripts []NegScript
	Conns   []*SrvConn
	Certs   *CertSet
	// TLSTickets: the server resumes TLS sessions (session tickets)
	TLSTickets bool
	// OnElem lets a scenario react to (or just observe) client elements after
	// the standard negotiation handling. Return true if consumed.
	OnElem func(sc *SrvConn, el *Elem) bool
	// OnText observes character data between elements (keepalives).
	OnText func(sc *SrvConn, raw []byte)
	// JID the server assigns on bind.
	BoundJid string
	// BoundPerConn: every bind gets a resource of its own (as servers do when the client asks for none)
	BoundPerConn bool
	// Component mode: expect <handshake/> after the header.
	Component   bool
	HandshakeOK func(sc *SrvConn, digest string) string // returns reply (raw XML) or "" for close
	WS          bool

	delayed     []delayedSend
	delaySeq    int
	StopDelayed bool
}

func NewServer(e *Engine, domain string) *Server {
	s := &Server{e: e, Domain: domain, BoundJid: "test@" + domain + "/bound"}
	e.Net.Listener = s.accept
	return s
}

func (s *Server) script(i int) NegScript {
	if len(s.Scripts) == 0 {
		return DefaultNeg()
	}
	if i >= len(s.Scripts) {
		return s.Scripts[len(s.Scripts)-1]
	}
	return s.Scripts[i]
}

type SrvConn struct {
	S      *Server
	Idx    int
	e      *Engine
	Pipe   *Pipe
	End    *End
	conn   net.Conn
	sp     *Splitter
	Script NegScript
	TLS    bool
	Phase  int
	Authed bool
	Recv   []*RecvElem
	Sent   []SentRec

	// what the server concluded
	Established  string // "", "bound", "resumed"
	EstablishedT time.Duration
	Enabled      bool // SM enabled on this connection (fresh) or resumed
	StanzasSent  int  // stanzas sent on the stream-managed session (server's own count)
	StanzasRecv  int  // stanzas received after establishment
	ReadErr      error
	Done         bool
	Pipelined    []string
	PlainOff     int64 // plaintext bytes written to the client after the last stream (re)start
	Dead         bool
	AuthSeen     []*Elem
	HandshakeTLS string // "", "ok", or error text
	closedByUs   bool
	PauseReads   bool
	Farewell     string // sent, followed by the closing tag, in answer to the client's closing tag
	FarewellSent bool
	TLSResumed   bool // the TLS session of this connection is a resumed one: no certificate was presented on it
	closer       int
}

type SentRec struct {
	Seq  int
	At   time.Duration
	Data string
}

func (s *Server) accept(p *Pipe) {
	sc := &SrvConn{S: s, Idx: len(s.Conns), e: s.e, Pipe: p, End: p.Srv, conn: p.Srv}
	sc.Script = s.script(sc.Idx)
	s.Conns = append(s.Conns, sc)
	sc.sp = NewSplitter(yieldReader{sc})
	s.e.Go(fmt.Sprintf("srv%d", sc.Idx), sc.loop)
}

// yieldReader parks after every read so that the reader task only touches
// shared harness state while it holds the run token.
type yieldReader struct{ sc *SrvConn }

func (y yieldReader) Read(p []byte) (int, error) {
	if y.sc.PauseReads {
		// a busy or stalled server: it stops reading for a while (back-pressure on the client's writes)
		y.sc.e.WaitUntil("srv.paused", func() bool { return !y.sc.PauseReads })
	}
	n, err := y.sc.conn.Read(p)
	y.sc.e.Yield("srv.read")
	return n, err
}

func (sc *SrvConn) name() string { return fmt.Sprintf("srv%d", sc.Idx) }

// Send writes raw bytes to the client (one Write) and logs them.
func (sc *SrvConn) Send(raw string) error {
	if sc.Dead {
		return io.ErrClosedPipe
	}
	n, err := sc.conn.Write([]byte(raw))
	if sc.End.RecvWindow > 0 || sc.Pipe.Cli.RecvWindow > 0 {
		// the write may have blocked on the peer's window: take the run token again before
		// touching shared state
		sc.e.Yield("srv.written")
	}
	sc.PlainOff += int64(n)
	sc.Sent = append(sc.Sent, SentRec{Seq: len(sc.e.Log), At: sc.e.Now(), Data: raw})
	sc.e.Logf("srv.send", "%s %s", sc.name(), clip(raw, 160))
	return err
}

func clip(s string, n int) string {
	if len(s) > n {
		return s[:n] + fmt.Sprintf("…(%d bytes)", len(s))
	}
	return s
}

// Close closes the server side (FIN to the client).
func (sc *SrvConn) Close() {
	sc.closedByUs = true
	sc.Dead = true
	sc.e.Logf("srv.close", "%s", sc.name())
	sc.End.Close()
}

// CloseTLS ends the TLS session the way tls.Conn.Close does (close_notify alert, then FIN),
// without closing the XMPP stream first.
func (sc *SrvConn) CloseTLS() {
	sc.closedByUs = true
	sc.Dead = true
	sc.e.Logf("srv.close", "%s (TLS close_notify)", sc.name())
	sc.conn.Close()
}

// CloseGracefully sends </stream:stream> and then FIN.
func (sc *SrvConn) CloseGracefully() {
	sc.Send("</stream:stream>")
	sc.e.Yield("srv.closing")
	sc.Close()
}

func (sc *SrvConn) boundJid() string {
	if sc.S.BoundPerConn {
		return fmt.Sprintf("%s-%d", sc.S.BoundJid, sc.Idx)
	}
	return sc.S.BoundJid
}

func (sc *SrvConn) delay() {
	if d := sc.Script.DelayMs; d > 0 {
		sc.e.Sleep(time.Duration(d)*time.Millisecond + 1)
		// anything the client sent while we were "thinking" was not waited for
		if sc.End.pendingInbound() > 0 || len(strings.TrimSpace(string(sc.sp.Buffered()))) > 0 {
			sc.Pipelined = append(sc.Pipelined, fmt.Sprintf("client bytes arrived before the reply to step in phase %d", sc.Phase))
		}
	}
}

func (c *End) pendingInbound() int {
	c.mu.Lock()
	defer c.mu.Unlock()
	return len(c.rbuf) + len(c.inflight)
}

func (sc *SrvConn) header(kind int) bool {
	scr := sc.Script
	id := xmlEscape(scr.StreamID)
	ns := nsClient
	if sc.S.Component {
		ns = nsComponent
	}
	switch kind {
	case HdrOK:
		sc.Send(fmt.Sprintf("<?xml version='1.0'?><stream:stream id='%s' from='%s' xmlns='%s' xmlns:stream='%s' version='1.0'>", id, sc.S.Domain, ns, nsStream))
	case HdrOKDecl:
		sc.Send(fmt.Sprintf("<?xml version=\"1.0\" encoding=\"UTF-8\"?>\n<stream:stream xmlns:stream=\"%s\" version=\"1.0\" xml:lang=\"en\" xmlns=\"%s\" from=\"%s\" id=\"%s\" >\n", nsStream, ns, sc.S.Domain, id))
	case HdrOKForeignID:
		sc.Send(fmt.Sprintf("<?xml version='1.0'?><stream:stream id='%s' from='%s' xmlns='%s' xmlns:stream='%s' xmlns:x='urn:example:x' version='1.0' xml:id='decoy-1' x:id='decoy-2'>", id, sc.S.Domain, ns, nsStream))
	case HdrWrongRoot:
		sc.Send(fmt.Sprintf("<?xml version='1.0'?><stream id='%s' xmlns='%s'>", id, ns))
	case HdrMalformed:
		sc.Send("<?xml version='1.0'?><stream:stream id='x' <<>")
	case HdrClose:
		sc.Close()
		return false
	case HdrStreamError:
		sc.Send(fmt.Sprintf("<?xml version='1.0'?><stream:stream id='%s' from='%s' xmlns='%s' xmlns:stream='%s' version='1.0'>", id, sc.S.Domain, ns, nsStream))
		sc.Send(fmt.Sprintf("<stream:error><host-unknown xmlns='%s'/></stream:error></stream:stream>", nsStreams))
		return false
	case HdrStreamEnd:
		sc.Send(fmt.Sprintf("<?xml version='1.0'?><stream:stream id='%s' from='%s' xmlns='%s' xmlns:stream='%s' version='1.0'>", id, sc.S.Domain, ns, nsStream))
		sc.Send("</stream:stream>")
		return false
	}
	return true
}

func (sc *SrvConn) sep() string {
	if sc.Script.Spaces {
		return "\n  "
	}
	return ""
}

func (sc *SrvConn) features() string {
	scr := sc.Script
	var b strings.Builder
	b.WriteString("<stream:features>")
	if !sc.Authed {
		if !sc.TLS {
			switch scr.StartTLS {
			case TLSOffered:
				b.WriteString(sc.sep() + "<starttls xmlns='" + nsTLS + "'/>")
			case TLSRequired:
				b.WriteString(sc.sep() + "<starttls xmlns='" + nsTLS + "'><required/></starttls>")
			}
		}
		if len(scr.ForeignMechs) > 0 {
			b.WriteString(sc.sep() + "<mechanisms xmlns='urn:xmpp:sasl:1'>")
			for _, m := range scr.ForeignMechs {
				b.WriteString("<mechanism>" + xmlEscape(m) + "</mechanism>")
			}
			b.WriteString("</mechanisms>")
		}
		b.WriteString(sc.sep() + "<mechanisms xmlns='" + nsSASL + "'>")
		mechs := scr.Mechs
		if sc.TLS && scr.MechsTLS != nil {
			mechs = scr.MechsTLS
		}
		for i, m := range mechs {
			if i == 1 {
				for _, f := range scr.ForeignMechKids {
					b.WriteString("<x:mechanism xmlns:x='urn:example:other'>" + xmlEscape(f) + "</x:mechanism>")
				}
			}
			b.WriteString("<mechanism>" + xmlEscape(m) + "</mechanism>")
		}
		if len(mechs) < 2 {
			for _, f := range scr.ForeignMechKids {
				b.WriteString("<x:mechanism xmlns:x='urn:example:other'>" + xmlEscape(f) + "</x:mechanism>")
			}
		}
		b.WriteString("</mechanisms>")
		if scr.ExtraFeats {
			b.WriteString(sc.sep() + "<c xmlns='http://jabber.org/protocol/caps' hash='sha-1' node='http://example.org' ver='abc='/><register xmlns='http://jabber.org/features/iq-register'/>")
		}
	} else {
		b.WriteString(sc.sep() + "<bind xmlns='" + nsBind + "'/>")
		switch scr.Session {
		case SessOptional:
			b.WriteString(sc.sep() + "<session xmlns='" + nsSession + "'><optional/></session>")
		case SessMandatory:
			b.WriteString(sc.sep() + "<session xmlns='" + nsSession + "'/>")
		}
		if scr.ExtraFeats {
			// both XEP-0198 versions, the way ejabberd and Prosody advertise them
			b.WriteString(sc.sep() + "<sm xmlns='urn:xmpp:sm:2'/>")
		}
		if scr.SM {
			b.WriteString(sc.sep() + "<sm xmlns='" + nsSM + "'/>")
		}
		if scr.ExtraFeats {
			b.WriteString(sc.sep() + "<ver xmlns='urn:xmpp:features:rosterver'/><csi xmlns='urn:xmpp:csi:0'/>")
		}
	}
	b.WriteString(sc.sep() + "</stream:features>")
	return b.String()
}

// loop is the reader task of the connection.
func (sc *SrvConn) loop() {
	defer func() { sc.Done = true }()
	if sc.S.WS {
		sc.wsLoop()
		return
	}
	for {
		it, err := sc.sp.Next()
		if err != nil {
			sc.ReadErr = err
			sc.e.Logf("srv.readerr", "%s %v", sc.name(), err)
			if !sc.closedByUs && !sc.End.IsClosed() {
				// the client closed or the connection broke: close our side too
				sc.Dead = true
				sc.End.Close()
			}
			return
		}
		sc.handle(it)
		if sc.Dead {
			// keep draining so that the client's writes do not pile up unseen
			continue
		}
	}
}

func (sc *SrvConn) record(it *Item) {
	sc.Recv = append(sc.Recv, &RecvElem{Seq: len(sc.e.Log), At: sc.e.Now(), Item: it, Phase: sc.Phase, TLS: sc.TLS})
}

func (sc *SrvConn) handle(it *Item) {
	switch it.Kind {
	case ItemDecl:
		return
	case ItemText:
		sc.record(it)
		sc.e.Logf("srv.text", "%s %q", sc.name(), clip(string(it.Raw), 40))
		if sc.S.OnText != nil {
			sc.S.OnText(sc, it.Raw)
		}
		return
	case ItemClose:
		sc.record(it)
		sc.e.Logf("srv.recv", "%s </stream:stream>", sc.name())
		if !sc.Dead {
			if sc.Farewell != "" && sc.Established != "" {
				// the client has closed its stream; this server still has something to say before it
				// closes its own (RFC 6120 4.4: the closing entity goes on processing inbound data until it
				// receives the closing tag of the other side, or times out)
				sc.FarewellSent = true
				sc.Send(sc.Farewell + "</stream:stream>")
				sc.e.Yield("srv.closing")
				sc.Close()
				return
			}
			if sc.Script.ProbeOnClose && sc.Established == "" {
				// a peer may still send on a stream the other side has closed
				sc.Send("<iq xmlns='jabber:client' type='get' id='probe-after-failure' from='" + sc.S.Domain + "'><ping xmlns='urn:xmpp:ping'/></iq>")
				sc.e.Probe("srv.request_after_client_closed")
				// keep reading what the client may still write; answer the close a little later
				sc.closer++
				sc.e.Go(fmt.Sprintf("%s.closer%d", sc.name(), sc.closer), func() {
					sc.e.Sleep(2*sc.End.Latency + 2*sc.Pipe.Cli.Latency + 300*time.Millisecond)
					if !sc.Dead {
						sc.Send("</stream:stream>")
						sc.e.Yield("srv.closing")
						sc.Close()
					}
				})
				return
			}
			sc.Send("</stream:stream>")
			sc.e.Yield("srv.closing")
			sc.Close()
		}
		return
	case ItemOpen:
		sc.record(it)
		sc.e.Logf("srv.recv", "%s stream-open to=%s", sc.name(), it.Elem.Attr("to"))
		if sc.Dead {
			return
		}
		sc.delay()
		sc.PlainOff = 0
		kind := sc.Script.Header
		if sc.Authed {
			kind = sc.Script.Header3
		} else if sc.TLS {
			kind = sc.Script.Header2
		}
		if !sc.header(kind) {
			return
		}
		if sc.S.Component {
			return
		}
		sc.e.Yield("srv.features")
		sc.Send(sc.features())
		return
	}
	el := it.Elem
	sc.record(it)
	sc.e.Logf("srv.recv", "%s %s", sc.name(), el.Short())
	if sc.Dead {
		return
	}
	scr := sc.Script
	switch {
	case el.Is(nsTLS, "starttls"):
		sc.delay()
		switch scr.TLSReply {
		case TLSProceed:
			// (ProceedTrailer: clear text right behind <proceed/>, in the same write - what an attacker in
			// the path can inject before the TLS handshake; none of it was said by the authenticated server)
			sc.Send("<proceed xmlns='" + nsTLS + "'/>" + scr.ProceedTrailer)
			sc.startTLS()
		case TLSFailure:
			sc.Send("<failure xmlns='" + nsTLS + "'/></stream:stream>")
			sc.e.Yield("srv.closing")
			sc.Close()
		case TLSUnexpected:
			sc.Send("<message xmlns='jabber:client'><body>not now</body></message>")
		case TLSMalformed:
			sc.Send("<proceed xmlns='" + nsTLS + "'<<")
		case TLSClose:
			sc.Close()
		case TLSStreamEnd:
			sc.Send("</stream:stream>")
		}
	case el.Is(nsSASL, "auth"):
		sc.AuthSeen = append(sc.AuthSeen, el)
		sc.delay()
		switch scr.AuthReply {
		case AuthSuccess:
			if scr.Prefixed {
				sc.Send("<sasl:success xmlns:sasl='" + nsSASL + "'></sasl:success>")
			} else {
				sc.Send("<success xmlns='" + nsSASL + "'/>")
			}
			sc.Authed = true
			sc.Phase = 2
			sc.sp.Reset()
		case AuthFailure:
			cond := scr.AuthCond
			if cond == "" {
				cond = "not-authorized"
			}
			sc.Send("<failure xmlns='" + nsSASL + "'><" + cond + "/></failure>")
			switch scr.AuthFailDrop {
			case 1:
				sc.CloseGracefully()
			case 2:
				// a server that drops the connection of a client it has refused
				sc.e.Go("srv.drop", func() {
					sc.e.WaitUntilFor("srv.drop", 5*time.Second, func() bool { return sc.Pipe.Cli.TotalRead >= sc.End.TotalWritten })
					sc.e.Logf("srv.reset", "%s after <failure/>", sc.name())
					sc.closedByUs = true
					sc.Dead = true
					sc.End.Reset()
				})
			}
		case AuthChallenge:
			sc.Send("<challenge xmlns='" + nsSASL + "'>" + base64.StdEncoding.EncodeToString([]byte("realm=x")) + "</challenge>")
		case AuthStanza:
			sc.Send("<message xmlns='jabber:client' from='" + sc.S.Domain + "'><body>hello</body></message>")
		case AuthMalformed:
			sc.Send("<success xmlns='" + nsSASL + "'<")
		case AuthClose:
			sc.Close()
		case AuthStreamEnd:
			sc.Send("</stream:stream>")
		case AuthSloppy:
			sc.Send("<success xmlns='" + nsSASL + "' code=ok/>")
		}
	case el.Is(nsSM, "resume"):
		sc.delay()
		switch scr.Resume {
		case ResumeOK:
			if scr.FailWriteAfterResumed > 0 {
				// (the client is waiting for this answer: it writes nothing until it has it)
				sc.Pipe.Cli.FailWriteAt = sc.Pipe.Cli.Writes + scr.FailWriteAfterResumed
			}
			sc.Send(fmt.Sprintf("<resumed xmlns='%s' previd='%s' h='%d'/>", nsSM, xmlEscape(el.Attr("previd")), sc.S.Scripts[min(sc.Idx, len(sc.S.Scripts)-1)].ResumedH))
			sc.establish("resumed")
			sc.Enabled = true
		case ResumeOtherID:
			sc.Send(fmt.Sprintf("<resumed xmlns='%s' previd='%s-other' h='0'/>", nsSM, xmlEscape(el.Attr("previd"))))
		case ResumeFailed:
			sc.Send(fmt.Sprintf("<failed xmlns='%s'><item-not-found xmlns='%s'/></failed>", nsSM, nsStanzas))
		case ResumeUnexpected:
			sc.Send("<message xmlns='jabber:client'><body>what?</body></message>")
		case ResumeClose:
			sc.Close()
		case ResumeStreamEnd:
			sc.Send("</stream:stream>")
			sc.e.Yield("srv.closing")
			sc.Close()
		case ResumeNoPrevid:
			sc.Send(fmt.Sprintf("<resumed xmlns='%s' h='0'/>", nsSM))
		case ResumeUnreadable:
			sc.Send(ResumeUnreadableReplies[scr.ResumeAlt%len(ResumeUnreadableReplies)])
		}
	case el.Is(nsSM, "enable"):
		sc.delay()
		loc := ""
		if scr.SMLocation != "" {
			loc = " location='" + xmlEscape(scr.SMLocation) + "'"
		}
		switch scr.Enable {
		case EnableOK:
			yes := "true"
			if scr.ResumeOne {
				yes = "1"
			}
			sc.Send(fmt.Sprintf("<enabled xmlns='%s' id='%s' resume='%s'%s/>", nsSM, xmlEscape(scr.SMId), yes, loc))
			sc.Enabled = true
			sc.StanzasSent = 0
		case EnableNoResume:
			sc.Send(fmt.Sprintf("<enabled xmlns='%s' id='%s'/>", nsSM, xmlEscape(scr.SMId)))
			sc.Enabled = true
			sc.StanzasSent = 0
		case EnableFailed:
			sc.Send(fmt.Sprintf("<failed xmlns='%s'><unexpected-request xmlns='%s'/></failed>", nsSM, nsStanzas))
		case EnableFailedEmpty:
			sc.Send(fmt.Sprintf("<failed xmlns='%s'/>", nsSM))
		case EnableOther:
			sc.Send("<presence xmlns='jabber:client' from='x@" + sc.S.Domain + "'/>")
		case EnableClose:
			sc.Close()
		}
	case el.Local == "iq" && el.Child(nsBind, "bind") != nil && sc.Established == "":
		sc.delay()
		id := xmlEscape(el.Attr("id"))
		switch scr.Bind {
		case BindOK:
			if scr.Prefixed {
				sc.Send(fmt.Sprintf("<iq id='%s' type='result'><b:bind xmlns:b='%s'><b:jid>%s</b:jid></b:bind></iq>", id, nsBind, xmlEscape(sc.boundJid())))
			} else {
				sc.Send(fmt.Sprintf("<iq type='result' id='%s'><bind xmlns='%s'><jid>%s</jid></bind></iq>", id, nsBind, xmlEscape(sc.boundJid())))
			}
			sc.establish("bound")
		case BindError:
			sc.Send(fmt.Sprintf("<iq type='error' id='%s'><error type='cancel'><conflict xmlns='%s'/></error></iq>", id, nsStanzas))
		case BindErrorEcho:
			sc.Send(fmt.Sprintf("<iq type='error' id='%s'><bind xmlns='%s'><resource>%s</resource></bind><error type='modify'><bad-request xmlns='%s'/></error></iq>", id, nsBind, "r", nsStanzas))
		case BindEmptyResult:
			sc.Send(fmt.Sprintf("<iq type='result' id='%s'/>", id))
		case BindOther:
			sc.Send("<message xmlns='jabber:client'><body>busy</body></message>")
		case BindClose:
			sc.Close()
		case BindStreamEnd:
			sc.Send("</stream:stream>")
		case BindInMessage:
			sc.Send(fmt.Sprintf("<message type='result' id='%s'><bind xmlns='%s'><jid>%s</jid></bind></message>", id, nsBind, xmlEscape(sc.boundJid())))
		case BindForeignID:
			sc.Send(fmt.Sprintf("<iq type='result' id='not-%s'><bind xmlns='%s'><jid>%s</jid></bind></iq>", id, nsBind, xmlEscape(sc.boundJid())))
		case BindNoJid:
			sc.Send(fmt.Sprintf("<iq type='result' id='%s'><bind xmlns='%s'/></iq>", id, nsBind))
		case BindForeignNS:
			sc.Send(fmt.Sprintf("<iq xmlns='urn:example:not-xmpp' type='result' id='%s'><bind xmlns='%s'><jid>%s</jid></bind></iq>", id, nsBind, xmlEscape(sc.boundJid())))
		case BindSloppy:
			if sc.Idx%2 == 0 {
				sc.Send(fmt.Sprintf("<iq type='result' id='%s'><bind xmlns='%s'><jid>%s</jid><note>a&nbsp;b</note></bind></iq>", id, nsBind, xmlEscape(sc.boundJid())))
			} else {
				sc.Send(fmt.Sprintf("<iq type=result id='%s'><bind xmlns='%s'><jid>%s</jid></bind></iq>", id, nsBind, xmlEscape(sc.boundJid())))
			}
		}
	case el.Local == "iq" && el.Child(nsSession, "session") != nil:
		sc.delay()
		id := xmlEscape(el.Attr("id"))
		switch scr.SessionRep {
		case SessionOK:
			sc.Send(fmt.Sprintf("<iq type='result' id='%s'/>", id))
		case SessionError:
			sc.Send(fmt.Sprintf("<iq type='error' id='%s'><error type='wait'><internal-server-error xmlns='%s'/></error></iq>", id, nsStanzas))
		case SessionOther:
			sc.Send("<message xmlns='jabber:client'><body>busy</body></message>")
		case SessionClose:
			sc.Close()
		case SessionStreamEnd:
			sc.Send("</stream:stream>")
		case SessionInPresence:
			sc.Send(fmt.Sprintf("<presence type='result' id='%s'/>", id))
		case SessionForeignID:
			sc.Send(fmt.Sprintf("<iq type='result' id='not-%s'/>", id))
		}
	case el.Is(nsComponent, "handshake") || (sc.S.Component && el.Local == "handshake"):
		sc.delay()
		reply := ""
		if sc.S.HandshakeOK != nil {
			reply = sc.S.HandshakeOK(sc, el.Text)
		}
		if reply == "" {
			sc.Close()
		} else {
			sc.Send(reply)
		}
	default:
		if sc.Established != "" && (el.Local == "message" || el.Local == "presence" || el.Local == "iq") {
			sc.StanzasRecv++
		}
		if sc.S.OnElem != nil && sc.S.OnElem(sc, el) {
			return
		}
		if el.Is(nsSM, "r") && scr.AutoAckR {
			sc.Send(fmt.Sprintf("<a xmlns='%s' h='%d'/>", nsSM, sc.StanzasRecv))
		}
	}
}

func (sc *SrvConn) establish(how string) {
	sc.Established = how
	sc.EstablishedT = sc.e.Now()
	sc.e.Logf("srv.established", "%s %s", sc.name(), how)
}

func (sc *SrvConn) startTLS() {
	cfg := sc.S.Certs.ServerConfig(sc.Script.Cert, sc.e.Tape.Seed)
	if sc.S.TLSTickets {
		cfg = sc.S.Certs.ServerConfigTickets(sc.Script.Cert, sc.e.Tape.Seed)
	}
	if sc.Script.TLS12 {
		cfg.MaxVersion = tls.VersionTLS12
	}
	if sc.Script.TLS13Only {
		cfg.MinVersion = tls.VersionTLS13
	}
	if sc.Script.Cert == CertAbort {
		sc.e.Fault("tls.abort")
		sc.e.Yield("srv.tlsabort")
		// read a little of the ClientHello, then reset
		buf := make([]byte, 1)
		sc.conn.Read(buf)
		sc.e.Yield("srv.tlsabort2")
		sc.Dead = true
		sc.closedByUs = true
		sc.End.Reset()
		return
	}
	tc := tls.Server(sc.End, cfg)
	sc.e.Yield("srv.handshake")
	err := tc.Handshake()
	sc.e.Yield("srv.handshaken")
	if err != nil {
		sc.HandshakeTLS = err.Error()
		sc.e.Logf("srv.tls", "%s handshake failed: %v", sc.name(), err)
		sc.Dead = true
		sc.closedByUs = true
		sc.End.Close()
		return
	}
	sc.HandshakeTLS = "ok"
	sc.TLSResumed = tc.ConnectionState().DidResume
	sc.e.Logf("srv.tls", "%s handshake complete", sc.name())
	sc.e.Probe("tls.handshake_complete")
	sc.conn = tc
	sc.TLS = true
	sc.Phase = 1
	sc.sp = NewSplitter(yieldReader{sc})
}

// Stanza helpers ------------------------------------------------------------

// SendStanza sends a stanza on an established session and counts it.
func (sc *SrvConn) SendStanza(raw string) error {
	err := sc.Send(raw)
	sc.StanzasSent++
	return err
}

// Elements returns the client elements (not text, not stream open/close)
// received on this connection.
func (sc *SrvConn) Elements() []*RecvElem {
	var out []*RecvElem
	for _, r := range sc.Recv {
		if r.Item.Kind == ItemElem {
			out = append(out, r)
		}
	}
	return out
}

// ClientBytes returns everything the splitter consumed so far as items.
func (sc *SrvConn) Items() []*RecvElem { return sc.Recv }

func (sc *SrvConn) wsLoop() {}

// ---------------------------------------------------------------------------
// delayed sends: one harness task per server sends scheduled data in time order

type delayedSend struct {
	due  time.Time
	sc   *SrvConn
	raw  string
	seq  int
	stan bool
}

// SendAfter schedules raw to be written d of simulated time from now.
func (sc *SrvConn) SendAfter(d time.Duration, raw string) {
	s := sc.S
	s.delaySeq++
	s.delayed = append(s.delayed, delayedSend{due: time.Now().Add(d), sc: sc, raw: raw, seq: s.delaySeq})
}

// RunDelayed is the body of the timer task; start it with e.Go from the
// driver. It ends when Stop is set and nothing is pending.
func (s *Server) RunDelayed() {
	for {
		s.e.WaitUntil("srv.timer", func() bool { return len(s.delayed) > 0 || s.StopDelayed })
		if len(s.delayed) == 0 {
			return
		}
		// earliest (stable on seq)
		k := 0
		for i, d := range s.delayed {
			if d.due.Before(s.delayed[k].due) || (d.due.Equal(s.delayed[k].due) && d.seq < s.delayed[k].seq) {
				k = i
			}
		}
		d := s.delayed[k]
		if wait := time.Until(d.due); wait > 0 {
			n := len(s.delayed)
			s.e.WaitUntilFor("srv.timer.sleep", wait, func() bool { return len(s.delayed) != n })
			continue
		}
		s.delayed = append(s.delayed[:k], s.delayed[k+1:]...)
		if !d.sc.Dead {
			d.sc.Send(d.raw)
		}
	}
}
