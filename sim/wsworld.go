package sim

import (
	"context"
	"errors"
	"fmt"
	"net"
	"net/http"
	"strings"
	"time"

	"nhooyr.io/websocket"
)

// WebSocket world: the real WebsocketTransport (nhooyr.io/websocket + net/http
// client) talks to a real http.Server + websocket.Accept over the simulated
// network. http.DefaultTransport is the seam: it is swapped, inside the
// bubble and for the duration of one run, for a transport that dials the
// simulated network.

const SimWSAddr = "ws://sim.example:5280/xmpp-websocket"

type simListener struct {
	ch     chan net.Conn
	closed chan struct{}
}

func (l *simListener) Accept() (net.Conn, error) {
	select {
	case c := <-l.ch:
		return c, nil
	case <-l.closed:
		return nil, errors.New("listener closed")
	}
}
func (l *simListener) Close() error {
	select {
	case <-l.closed:
	default:
		close(l.closed)
	}
	return nil
}
func (l *simListener) Addr() net.Addr { return simAddr("sim.example:5280") }

// WSConn is the server side of one XMPP-over-WebSocket session.
type WSConn struct {
	S       *WSServer
	TextEnd int64 // bytes written when the text of the latest fragmented message was out
	Idx     int
	Pipe    *Pipe
	c       *websocket.Conn
	// frames received from the client, as DOM
	Recv        []*Elem
	RecvRaw     []string
	Established bool
	Dead        bool
	Authed      bool
	ReadErr     error
}

type WSServer struct {
	e      *Engine
	l      *simListener
	hs     *http.Server
	Conns  []*WSConn
	pipes  []*Pipe
	OnElem func(c *WSConn, el *Elem) bool
	prev   http.RoundTripper
	// SM: advertise and enable stream management
	SM bool
}

// NewWSServer starts the HTTP server and installs the client-side seam. Call
// from the driver task; Stop before the run ends.
func NewWSServer(e *Engine) *WSServer {
	s := &WSServer{e: e, l: &simListener{ch: make(chan net.Conn, 16), closed: make(chan struct{})}}
	e.Net.Listener = func(p *Pipe) {
		s.pipes = append(s.pipes, p)
		s.l.ch <- p.Srv
	}
	s.prev = http.DefaultTransport
	http.DefaultTransport = &http.Transport{
		DialContext: func(ctx context.Context, network, addr string) (net.Conn, error) {
			return e.Net.dial(network, addr, 0)
		},
		DisableKeepAlives: true,
	}
	mux := http.NewServeMux()
	mux.HandleFunc("/xmpp-websocket", s.serve)
	s.hs = &http.Server{Handler: mux}
	go s.hs.Serve(s.l)
	return s
}

func (s *WSServer) Stop() {
	http.DefaultTransport = s.prev
	s.l.Close()
	s.hs.Close()
}

func (s *WSServer) serve(w http.ResponseWriter, r *http.Request) {
	c, err := websocket.Accept(w, r, &websocket.AcceptOptions{Subprotocols: []string{"xmpp"}})
	// from here on this goroutine is a task of the simulation
	s.e.Yield("ws.srv.accept")
	if err != nil {
		s.e.Logf("ws.srv", "accept failed: %v", err)
		return
	}
	c.SetReadLimit(1 << 20)
	wc := &WSConn{S: s, Idx: len(s.Conns), c: c}
	if wc.Idx < len(s.pipes) {
		wc.Pipe = s.pipes[wc.Idx]
	}
	s.Conns = append(s.Conns, wc)
	wc.loop()
}

func (wc *WSConn) name() string { return fmt.Sprintf("ws%d", wc.Idx) }

// Send writes one WebSocket text message.
func (wc *WSConn) Send(raw string) error {
	if wc.Dead {
		return errors.New("dead")
	}
	err := wc.c.Write(context.Background(), websocket.MessageText, []byte(raw))
	wc.S.e.Logf("srv.send", "%s %s", wc.name(), clip(raw, 160))
	return err
}

// SendFragmented writes one WebSocket text message as several frames (RFC 6455 fragmentation).
func (wc *WSConn) SendFragmented(raw string, parts int) error {
	if wc.Dead {
		return errors.New("dead")
	}
	w, err := wc.c.Writer(context.Background(), websocket.MessageText)
	if err != nil {
		return err
	}
	b := []byte(raw)
	if parts < 2 {
		parts = 2
	}
	step := (len(b) + parts - 1) / parts
	for i := 0; i < len(b); i += step {
		j := i + step
		if j > len(b) {
			j = len(b)
		}
		if _, err := w.Write(b[i:j]); err != nil {
			return err
		}
	}
	err = w.Close()
	// the library ends the message with an empty final frame (a two byte header, written together with
	// the frames before it): everything before that frame is the whole text
	wc.TextEnd = wc.Pipe.Srv.TotalWritten - 2
	wc.S.e.Logf("srv.send", "%s (in %d fragments) %s", wc.name(), parts, clip(raw, 120))
	return err
}

func (wc *WSConn) loop() {
	e := wc.S.e
	for {
		_, data, err := wc.c.Read(context.Background())
		e.Yield("ws.srv.read")
		if err != nil {
			wc.ReadErr = err
			wc.Dead = true
			e.Logf("srv.readerr", "%s %v", wc.name(), clip(err.Error(), 120))
			return
		}
		wc.RecvRaw = append(wc.RecvRaw, string(data))
		el, perr := ParseElem(data, map[string]string{"": nsClient, "stream": nsStream})
		if perr != nil {
			e.Logf("srv.recv", "%s unparsable frame %q: %v", wc.name(), clip(string(data), 80), perr)
			continue
		}
		wc.Recv = append(wc.Recv, el)
		e.Logf("srv.recv", "%s %s", wc.name(), el.Short())
		wc.handle(el)
	}
}

func (wc *WSConn) handle(el *Elem) {
	s := wc.S
	switch {
	case el.Is(nsFraming, "open"):
		wc.Send(fmt.Sprintf("<open xmlns='%s' id='ws-%d' from='%s' version='1.0'/>", nsFraming, wc.Idx, SimDomain))
		s.e.Yield("ws.srv.features")
		if !wc.Authed {
			wc.Send(fmt.Sprintf("<stream:features xmlns:stream='%s'><mechanisms xmlns='%s'><mechanism>PLAIN</mechanism></mechanisms></stream:features>", nsStream, nsSASL))
		} else {
			sm := ""
			if s.SM {
				sm = "<sm xmlns='" + nsSM + "'/>"
			}
			wc.Send(fmt.Sprintf("<stream:features xmlns:stream='%s'><bind xmlns='%s'/>%s</stream:features>", nsStream, nsBind, sm))
		}
	case el.Is(nsFraming, "close"):
		wc.Send(fmt.Sprintf("<close xmlns='%s'/>", nsFraming))
		wc.Dead = true
		wc.c.Close(websocket.StatusNormalClosure, "bye")
	case el.Is(nsSASL, "auth"):
		wc.Authed = true
		wc.Send("<success xmlns='" + nsSASL + "'/>")
	case el.Local == "iq" && el.Child(nsBind, "bind") != nil:
		wc.Send(fmt.Sprintf("<iq xmlns='jabber:client' type='result' id='%s'><bind xmlns='%s'><jid>test@%s/ws</jid></bind></iq>", xmlEscape(el.Attr("id")), nsBind, SimDomain))
		wc.Established = true
		s.e.Logf("srv.established", "%s bound", wc.name())
	case el.Is(nsSM, "enable"):
		wc.Send(fmt.Sprintf("<enabled xmlns='%s' id='ws-sm-%d' resume='true'/>", nsSM, wc.Idx))
	default:
		if s.OnElem != nil {
			s.OnElem(wc, el)
		}
	}
}

// withClientNS adds the jabber:client namespace declaration WebSocket framing
// requires on every top-level stanza.
func withClientNS(raw string) string {
	raw = strings.TrimLeft(raw, " \n\t")
	for _, n := range []string{"message", "presence", "iq"} {
		if strings.HasPrefix(raw, "<"+n+" ") || strings.HasPrefix(raw, "<"+n+">") || strings.HasPrefix(raw, "<"+n+"/") {
			return "<" + n + " xmlns='jabber:client'" + raw[1+len(n):]
		}
	}
	return raw
}

var _ = time.Second
