package sim

import (
	"fmt"
	"io"
	"strings"
	"time"

	xmpp "gosrc.io/xmpp"
	"gosrc.io/xmpp/stanza"
)

// C16 — component handshake digest is exact; success requires the server's
// <handshake/>.

type c16Conn struct {
	StreamID     string `json:"stream_id"`
	Reply        string `json:"reply"`
	Header       int    `json:"header"`
	DelayMs      int    `json:"reply_delay_ms"`
	Stanzas      int    `json:"stanzas_after"`
	Trailing     bool   `json:"stanzas_right_behind_the_reply,omitempty"` // the server goes on sending in the same write, whatever it answered
	EndBy        string `json:"session_ended_by,omitempty"`               // how an established session ends before the next connection: close | cut | stream-error | disconnect (the application's)
	RefusedAfter bool   `json:"then_an_attempt_whose_dial_is_refused,omitempty"`
}

type c16Scenario struct {
	ReconnectOnStreamError bool      `json:"application_reconnects_on_stream_errors_other_than_conflict,omitempty"` // what the library's StreamManager does for clients
	Secret                 string    `json:"secret"`
	Conns                  []c16Conn `json:"connections"` // the same Component connects again after each session
	Seg                    int       `json:"segmentation"`
	Latency                int64     `json:"latency_ns"`
}

var textAlphabet = []string{"a", "b", "Z", "0", "9", "-", "_", ".", " ", "&", "<", ">", "\"", "'", "]]>", "é", "ü", "✓", "日本", "\t", "/", "@", ":", "=", "%", "+", " ", "𝔘",
	// text that looks like a character reference after one round of unescaping
	"&amp;", "&lt;", "&#65;", "&#x41;", "&copy", "&notes", "&quot;", ";"}

// genText draws an arbitrary string; attribute-legal after escaping.
func genText(g G, kind string, allowEmpty bool) string {
	var n int
	switch g.Weighted(kind+"-len", 6, 3, 1) {
	case 0:
		n = g.Range(kind+"-n", 1, 8)
	case 1:
		n = g.Range(kind+"-n", 9, 40)
	default:
		n = g.Range(kind+"-n", 200, 600)
	}
	if allowEmpty && g.Pct(kind+"-empty", 5) {
		return ""
	}
	var b strings.Builder
	for i := 0; i < n; i++ {
		b.WriteString(textAlphabet[g.N(kind+"-ch", len(textAlphabet))])
	}
	return b.String()
}

var c16Replies = []string{"handshake", "handshake-long", "err-conflict", "err-host-unknown", "err-not-authorized", "unexpected-message", "unexpected-features", "malformed", "close", "truncated-handshake", "mismatched-tags", "undefined-entity", "handshake-client-ns", "handshake-prefixed-client-ns", "handshake-server-ns", "handshake-sasl-ns"}

func init() {
	register(&PropDef{
		ID:    "C16",
		Rule:  "scenario = (server stream id over attribute-legal text incl. escaped metacharacters, non-ASCII, empty, long; secret; reply alphabet {handshake, stream errors, unexpected element, malformed, close}; header variant; delay; segmentation); non-trivial = the component sent its <handshake>; distinct = distinct (scenario hash, schedule hash)",
		Real:  []string{"xmpp.Component (Connect/Resume, handshake, recv)", "xmpp.XMPPTransport", "stanza.InitStream / NextPacket"},
		Stub:  []string{"TCP (simnet)", "XMPP component server (scripted model; digest recomputed by the harness with crypto/sha1)", "clock (synctest)", "goroutine scheduling (token scheduler)"},
		Run:   runC16,
		Reach: []string{"c16.reconnect", "c16.reconnected_from_the_stream_error_callback"},
	})
}

func runC16(e *Engine, g G, o RunOpt) RunInfo {
	sc := &c16Scenario{}
	sc.Secret = genText(g, "secret", true)
	n := 1 + g.Weighted("history", 6, 3, 1)
	for i := 0; i < n; i++ {
		c := c16Conn{StreamID: genText(g, "sid", true)}
		c.Reply = c16Replies[g.Weighted("reply", 8, 2, 2, 2, 2, 2, 2, 2, 2, 2, 2, 2, 2, 1, 1, 1)]
		c.Header = []int{HdrOK, HdrOKDecl, HdrOKForeignID}[g.N("hdr", 3)]
		c.DelayMs = []int{0, 0, 20, 3000}[g.N("delay", 4)]
		c.Stanzas = g.Range("stanzas", 0, 4)
		c.Trailing = g.Pct("trailing", 30)
		// ("handler-reconnects": the session is not ended at all - a route handler of the application, told
		// to by a message, makes the next connection from within the receive loop)
		c.EndBy = []string{"close", "cut", "stream-error", "disconnect", "handler-reconnects"}[g.N("endby", 5)]
		// before the next connection, an attempt that does not get as far as the handshake (the dial is refused)
		c.RefusedAfter = g.Pct("refused-attempt-after", 30)
		sc.Conns = append(sc.Conns, c)
	}
	sc.ReconnectOnStreamError = g.Pct("reconnect-on-stream-error", 40)
	sc.Seg, sc.Latency = netModes(g, e)

	var scripts []NegScript
	for _, c := range sc.Conns {
		script := DefaultNeg()
		script.StreamID = c.StreamID
		script.Header = c.Header
		script.DelayMs = c.DelayMs
		scripts = append(scripts, script)
	}
	type attempt struct {
		digests []string
		err     error
		state   xmpp.ConnState
		sent    int
		routed  int
		estEv   int
		reached bool
	}
	atts := make([]*attempt, len(sc.Conns))
	refuseNext := false
	var w *CompW
	e.Run(func() {
		srv := NewServer(e, "comp."+SimDomain)
		srv.Component = true
		srv.Scripts = scripts
		var reply func(c *SrvConn, digest string) string
		srv.HandshakeOK = func(c *SrvConn, digest string) string {
			r := reply(c, digest)
			if r != "" && c.Idx < len(sc.Conns) && sc.Conns[c.Idx].Trailing && !strings.HasSuffix(r, "</stream:stream>") {
				at := atts[c.Idx]
				for k := 0; k < 2; k++ {
					r += fmt.Sprintf("<message id='t%d-%d' from='u@%s' to='comp.%s'><body>right behind</body></message>", c.Idx, k, SimDomain, SimDomain)
					at.sent++
				}
				e.Probe("c16.stanzas_right_behind_the_reply")
			}
			return r
		}
		reply = func(c *SrvConn, digest string) string {
			if c.Idx >= len(atts) || atts[c.Idx] == nil {
				return ""
			}
			at := atts[c.Idx]
			at.digests = append(at.digests, digest)
			switch sc.Conns[c.Idx].Reply {
			case "handshake":
				c.establish("handshake")
				return "<handshake/>"
			case "handshake-long":
				c.establish("handshake")
				return "<handshake xmlns='jabber:component:accept'></handshake>"
			case "err-conflict", "err-host-unknown", "err-not-authorized":
				return fmt.Sprintf("<stream:error><%s xmlns='%s'/></stream:error></stream:stream>", strings.TrimPrefix(sc.Conns[c.Idx].Reply, "err-"), nsStreams)
			case "unexpected-message":
				return "<message from='x@y' to='comp." + SimDomain + "'><body>hi</body></message>"
			case "unexpected-features":
				return "<stream:features/>"
			case "malformed":
				return "<handshake<>"
			case "truncated-handshake":
				// the start tag arrives, then the connection ends
				c.Send("<handshake>abc")
				e.Yield("srv.truncate")
				return ""
			case "mismatched-tags":
				return "<handshake><a></b></handshake>"
			case "undefined-entity":
				return "<handshake>&nosuchentity;</handshake>"
			case "handshake-client-ns":
				// an element called handshake that is not the XEP-0114 one
				return "<handshake xmlns='jabber:client'/>"
			case "handshake-prefixed-client-ns":
				return "<c:handshake xmlns:c='jabber:client'></c:handshake>"
			case "handshake-server-ns":
				return "<handshake xmlns='jabber:server'/>"
			case "handshake-sasl-ns":
				return "<handshake xmlns='" + nsSASL + "'/>"
			}
			return "" // close
		}
		e.Net.DialPlan = func(idx int) Dial {
			if refuseNext {
				return DialRefuse
			}
			return DialAccept
		}
		w = NewCompW(e, sc.Secret)
		w.CatchAll()
		if err := w.Create(); err != nil {
			return
		}
		// the application may have made the next connection itself, from the StreamError callback
		handlerDid := false
		var handlerErr error
		preEv, preHandled := 0, 0
		if sc.ReconnectOnStreamError {
			w.OnEvent = func(ev xmpp.Event) {
				if xmpp.VerifEventState(ev) == xmpp.StateStreamError && ev.StreamError != "conflict" {
					handlerErr = w.Comp.Resume()
					handlerDid = true
					e.Logf("app.reconnect", "Resume from the StreamError callback: %v", handlerErr)
					e.Probe("c16.reconnected_from_the_stream_error_callback")
				}
			}
		}
		w.OnPacket = func(_ xmpp.Sender, p stanza.Packet) {
			if m, ok := p.(stanza.Message); ok && m.Id == "reconnect-now" {
				preEv, preHandled = len(w.Events), len(w.Handled)
				handlerErr = w.Comp.Resume()
				handlerDid = true
				e.Logf("app.reconnect", "Resume from a route handler: %v", handlerErr)
				e.Probe("c16.reconnected_from_a_route_handler")
			}
		}
		msg := 0
		for i, c := range sc.Conns {
			at := atts[i]
			if at == nil {
				at = &attempt{}
				atts[i] = at
			}
			evBefore := len(w.Events)
			handledBefore := len(w.Handled)
			if handlerDid {
				handlerDid = false
				at.err = handlerErr
				evBefore, handledBefore = preEv, preHandled
			} else {
				at.err, _ = e.Call("Component.Connect", w.Comp.Connect)
			}
			at.state = xmpp.VerifComponentState(w.Comp)
			for _, ev := range w.Events[evBefore:] {
				if ev.State == xmpp.StateSessionEstablished {
					at.estEv++
				}
			}
			e.Sleep(20 * time.Millisecond)
			if len(srv.Conns) <= i {
				continue
			}
			at.reached = true
			conn := srv.Conns[i]
			if !conn.Dead && c.Reply != "malformed" && c.Reply != "mismatched-tags" && c.Reply != "undefined-entity" {
				for k := 0; k < c.Stanzas; k++ {
					msg++
					conn.Send(fmt.Sprintf("<message id='m%d' from='u@%s' to='comp.%s'><body>x</body></message>", msg, SimDomain, SimDomain))
					at.sent++
					e.Yield("srv.more")
				}
			}
			e.Sleep(30 * time.Second)
			for _, h := range w.Handled[handledBefore:] {
				if h.Kind == "message" {
					at.routed++
				}
			}
			if i == len(sc.Conns)-1 {
				break
			}
			// end this connection before the component connects again
			if !conn.Dead {
				switch {
				case c.EndBy == "stream-error" && conn.Established != "":
					// the server ends the session with a stream error; an application that reconnects from
					// the callback reaches the next scripted connection from there
					atts[i+1] = &attempt{}
					preEv, preHandled = len(w.Events), len(w.Handled)
					conn.Send("<stream:error><system-shutdown xmlns='" + nsStreams + "'/></stream:error></stream:stream>")
					e.Yield("srv.closing")
					conn.Close()
					e.Sleep(20 * time.Second)
				case c.EndBy == "handler-reconnects" && conn.Established != "":
					atts[i+1] = &attempt{}
					conn.Send(fmt.Sprintf("<message id='reconnect-now' from='admin@%s' to='comp.%s'><body>reconnect</body></message>", SimDomain, SimDomain))
					e.Sleep(20 * time.Second)
				case c.EndBy == "cut":
					conn.Pipe.Cli.CutAt = conn.End.TotalWritten
					conn.Pipe.Cli.CutErr = io.EOF
				case c.EndBy == "disconnect":
					e.Call("Component.Disconnect", func() error { w.Comp.Disconnect(); return nil })
				default:
					conn.CloseGracefully()
				}
			}
			e.Sleep(20 * time.Second)
			if c.RefusedAfter && !handlerDid {
				// An attempt that fails before any handshake: whatever the state was, no <handshake/> was
				// received on it - the component is not established, and says so.
				refuseNext = true
				evBefore := len(w.Events)
				rerr, _ := e.Call("Component.Connect (dial refused)", w.Comp.Connect)
				refuseNext = false
				st := xmpp.VerifComponentState(w.Comp)
				if rerr == nil {
					e.Violate("C16", "established-without-handshake:dial-refused", "after connection #%d (ended by %s): the dial was refused but Connect returned nil", i, c.EndBy)
				}
				if st == xmpp.StateSessionEstablished {
					e.Violate("C16", "state-established-without-handshake:dial-refused", "after connection #%d (ended by %s): the dial of the next attempt was refused (Connect: %v) and the state is SessionEstablished", i, c.EndBy, rerr)
				}
				for _, ev := range w.Events[evBefore:] {
					if ev.State == xmpp.StateSessionEstablished {
						e.Violate("C16", "established-announced-without-handshake:dial-refused", "after connection #%d: SessionEstablished announced by an attempt whose dial was refused", i)
					}
				}
				e.Probe("c16.attempt_with_refused_dial")
				e.Sleep(20 * time.Second)
			}
		}
	})
	info := RunInfo{Scenario: sc}
	if e.Stuck != "" {
		e.Violate("C16", "stuck", "%s", e.Stuck)
	}
	for _, p := range e.Panics {
		e.Violate("C16", "panic:"+panicSite(p), "%s: %s", p.Where, p.Value)
	}
	for i, at := range atts {
		if at == nil {
			continue
		}
		c := sc.Conns[i]
		if len(at.digests) > 0 {
			info.Nontrivial = true
		}
		if i > 0 {
			e.Probe("c16.reconnect")
		}
		want := handshakeDigest(c.StreamID, sc.Secret)
		switch {
		case len(at.digests) == 0:
			e.Violate("C16", "no-handshake-sent", "connection #%d: the component never sent <handshake> (Connect error: %v)", i, at.err)
			continue
		case len(at.digests) > 1:
			e.Violate("C16", "handshake-sent-twice", "connection #%d: %d handshakes sent", i, len(at.digests))
		case at.digests[0] != want:
			e.Violate("C16", "wrong-digest", "connection #%d: handshake %q, lower-case hex SHA-1 of id %q + secret is %q", i, at.digests[0], c.StreamID, want)
		}
		success := c.Reply == "handshake" || c.Reply == "handshake-long"
		if success {
			if at.err != nil {
				e.Violate("C16", "good-handshake-rejected", "connection #%d: server answered <handshake/> but Connect returned %v", i, at.err)
			} else {
				if at.state != xmpp.StateSessionEstablished {
					e.Violate("C16", "state-not-established", "connection #%d: Connect succeeded but the state is %s", i, StateName(at.state))
				}
				if at.routed != at.sent {
					e.Violate("C16", "stanzas-not-routed", "connection #%d: %d stanzas sent after the handshake, %d routed", i, at.sent, at.routed)
				}
			}
			continue
		}
		if at.err == nil {
			e.Violate("C16", "established-without-handshake:"+c.Reply, "connection #%d: server answered %s but Connect returned nil", i, c.Reply)
		}
		if at.state == xmpp.StateSessionEstablished {
			e.Violate("C16", "state-established-without-handshake:"+c.Reply, "connection #%d: server answered %s and the state is SessionEstablished after the failed Connect", i, c.Reply)
		}
		if at.estEv > 0 {
			e.Violate("C16", "established-announced-without-handshake:"+c.Reply, "connection #%d: server answered %s and a SessionEstablished event was delivered", i, c.Reply)
		}
		if at.routed > 0 {
			e.Violate("C16", "routed-without-handshake:"+c.Reply, "connection #%d: %d stanzas routed although the handshake was answered with %s", i, at.routed, c.Reply)
		}
		e.Probe("c16.reply." + c.Reply)
	}
	return info
}
