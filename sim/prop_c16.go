package sim

import (
	"fmt"
	"strings"
	"time"

	xmpp "gosrc.io/xmpp"
)

// C16 — component handshake digest is exact; success requires the server's
// <handshake/>.

type c16Scenario struct {
	StreamID string `json:"stream_id"`
	Secret   string `json:"secret"`
	Reply    string `json:"reply"`
	Header   int    `json:"header"`
	DelayMs  int    `json:"reply_delay_ms"`
	Stanzas  int    `json:"stanzas_after"`
	Seg      int    `json:"segmentation"`
	Latency  int64  `json:"latency_ns"`
}

var textAlphabet = []string{"a", "b", "Z", "0", "9", "-", "_", ".", " ", "&", "<", ">", "\"", "'", "]]>", "é", "ü", "✓", "日本", "\t", "/", "@", ":", "=", "%", "+", " ", "𝔘"}

// genText draws an arbitrary string; attribute-legal after escaping.
func genText(g G, kind string, allowEmpty bool) string {
	var n int
	switch g.Weighted(kind+"-len", 6, 3, 1) {
	case 0:
		n = g.Range(kind+"-n", 1, 8)
	case 1:
		n = g.Range(kind+"-n", 9, 40)
	default:
		n = g.Range(kind+"-n", 200, 600)
	}
	if allowEmpty && g.Pct(kind+"-empty", 5) {
		return ""
	}
	var b strings.Builder
	for i := 0; i < n; i++ {
		b.WriteString(textAlphabet[g.N(kind+"-ch", len(textAlphabet))])
	}
	return b.String()
}

var c16Replies = []string{"handshake", "handshake-long", "err-conflict", "err-host-unknown", "err-not-authorized", "unexpected-message", "unexpected-features", "malformed", "close", "truncated-handshake", "mismatched-tags", "undefined-entity"}

func init() {
	register(&PropDef{
		ID:   "C16",
		Rule: "scenario = (server stream id over attribute-legal text incl. escaped metacharacters, non-ASCII, empty, long; secret; reply alphabet {handshake, stream errors, unexpected element, malformed, close}; header variant; delay; segmentation); non-trivial = the component sent its <handshake>; distinct = distinct (scenario hash, schedule hash)",
		Real: []string{"xmpp.Component (Connect/Resume, handshake, recv)", "xmpp.XMPPTransport", "stanza.InitStream / NextPacket"},
		Stub: []string{"TCP (simnet)", "XMPP component server (scripted model; digest recomputed by the harness with crypto/sha1)", "clock (synctest)", "goroutine scheduling (token scheduler)"},
		Run:  runC16,
	})
}

func runC16(e *Engine, g G, o RunOpt) RunInfo {
	sc := &c16Scenario{}
	sc.StreamID = genText(g, "sid", true)
	sc.Secret = genText(g, "secret", true)
	sc.Reply = c16Replies[g.Weighted("reply", 8, 2, 2, 2, 2, 2, 2, 2, 2, 2, 2, 2)]
	sc.Header = []int{HdrOK, HdrOKDecl}[g.N("hdr", 2)]
	sc.DelayMs = []int{0, 0, 20, 3000}[g.N("delay", 4)]
	sc.Stanzas = g.Range("stanzas", 0, 4)
	sc.Seg, sc.Latency = netModes(g, e)

	script := DefaultNeg()
	script.StreamID = sc.StreamID
	script.Header = sc.Header
	script.DelayMs = sc.DelayMs

	var gotDigest []string
	var connectErr error
	var w *CompW
	var stAfter xmpp.ConnState
	sent := 0
	e.Run(func() {
		srv := NewServer(e, "comp."+SimDomain)
		srv.Component = true
		srv.Scripts = []NegScript{script}
		srv.HandshakeOK = func(c *SrvConn, digest string) string {
			gotDigest = append(gotDigest, digest)
			switch sc.Reply {
			case "handshake":
				c.establish("handshake")
				return "<handshake/>"
			case "handshake-long":
				c.establish("handshake")
				return "<handshake xmlns='jabber:component:accept'></handshake>"
			case "err-conflict", "err-host-unknown", "err-not-authorized":
				return fmt.Sprintf("<stream:error><%s xmlns='%s'/></stream:error></stream:stream>", strings.TrimPrefix(sc.Reply, "err-"), nsStreams)
			case "unexpected-message":
				return "<message from='x@y' to='comp." + SimDomain + "'><body>hi</body></message>"
			case "unexpected-features":
				return "<stream:features/>"
			case "malformed":
				return "<handshake<>"
			case "truncated-handshake":
				// the start tag arrives, then the connection ends
				c.Send("<handshake>abc")
				e.Yield("srv.truncate")
				return ""
			case "mismatched-tags":
				return "<handshake><a></b></handshake>"
			case "undefined-entity":
				return "<handshake>&nosuchentity;</handshake>"
			}
			return "" // close
		}
		w = NewCompW(e, sc.Secret)
		w.CatchAll()
		if err := w.Create(); err != nil {
			connectErr = err
			return
		}
		connectErr, _ = e.Call("Component.Connect", w.Comp.Connect)
		stAfter = xmpp.VerifComponentState(w.Comp)
		e.Sleep(20 * time.Millisecond)
		if len(srv.Conns) > 0 && !srv.Conns[0].Dead && sc.Reply != "malformed" && sc.Reply != "mismatched-tags" && sc.Reply != "undefined-entity" {
			for i := 0; i < sc.Stanzas; i++ {
				srv.Conns[0].Send(fmt.Sprintf("<message id='m%d' from='u@%s' to='comp.%s'><body>x</body></message>", i+1, SimDomain, SimDomain))
				sent++
				e.Yield("srv.more")
			}
		}
		e.Sleep(30 * time.Second)
	})
	info := RunInfo{Scenario: sc, Nontrivial: len(gotDigest) > 0}
	if e.Stuck != "" {
		e.Violate("C16", "stuck", "%s", e.Stuck)
	}
	for _, p := range e.Panics {
		e.Violate("C16", "panic:"+panicSite(p), "%s: %s", p.Where, p.Value)
	}
	want := handshakeDigest(sc.StreamID, sc.Secret)
	switch {
	case len(gotDigest) == 0:
		e.Violate("C16", "no-handshake-sent", "the component never sent <handshake> (Connect error: %v)", connectErr)
		return info
	case len(gotDigest) > 1:
		e.Violate("C16", "handshake-sent-twice", "%d handshakes sent", len(gotDigest))
	case gotDigest[0] != want:
		e.Violate("C16", "wrong-digest", "handshake %q, lower-case hex SHA-1 of id %q + secret is %q", gotDigest[0], sc.StreamID, want)
	}
	success := sc.Reply == "handshake" || sc.Reply == "handshake-long"
	routed := 0
	for _, h := range w.Handled {
		if h.Kind == "message" {
			routed++
		}
	}
	if success {
		if connectErr != nil {
			e.Violate("C16", "good-handshake-rejected", "server answered <handshake/> but Connect returned %v", connectErr)
		} else {
			if stAfter != xmpp.StateSessionEstablished {
				e.Violate("C16", "state-not-established", "Connect succeeded but the state is %s", StateName(stAfter))
			}
			if routed != sent {
				e.Violate("C16", "stanzas-not-routed", "%d stanzas sent after the handshake, %d routed", sent, routed)
			}
		}
	} else {
		if connectErr == nil {
			e.Violate("C16", "established-without-handshake:"+sc.Reply, "server answered %s but Connect returned nil", sc.Reply)
		}
		if stAfter == xmpp.StateSessionEstablished {
			e.Violate("C16", "state-established-without-handshake:"+sc.Reply, "server answered %s and the state is SessionEstablished", sc.Reply)
		}
		for _, ev := range w.Events {
			if ev.State == xmpp.StateSessionEstablished {
				e.Violate("C16", "established-announced-without-handshake:"+sc.Reply, "server answered %s and a SessionEstablished event was delivered", sc.Reply)
				break
			}
		}
		if routed > 0 {
			e.Violate("C16", "routed-without-handshake:"+sc.Reply, "%d stanzas routed although the handshake was answered with %s", routed, sc.Reply)
		}
		e.Probe("c16.reply." + sc.Reply)
	}
	return info
}
