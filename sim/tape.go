package sim

import (
	"fmt"
	"math/rand/v2"
)

// Stream is one sequence of choices. A tape has two: "gen" (scenario
// generation, drawn before the run starts) and "run" (scheduler and network
// decisions, drawn as the run proceeds). Keeping them apart means shrinking
// the scenario does not shift the schedule and vice versa.
type Stream struct {
	rng    *rand.Rand
	replay []Draw
	pos    int
	Rec    []Draw
	exact  bool
	Err    error
}

type Tape struct {
	Seed uint64
	Gen  *Stream
	Run  *Stream
}

func mix(a, b uint64) uint64 {
	x := a ^ (b + 0x9e3779b97f4a7c15 + (a << 6) + (a >> 2))
	x ^= x >> 33
	x *= 0xff51afd7ed558ccd
	x ^= x >> 33
	x *= 0xc4ceb9fe1a85ec53
	x ^= x >> 33
	return x
}

func hashString(s string) uint64 {
	h := uint64(14695981039346656037)
	for i := 0; i < len(s); i++ {
		h ^= uint64(s[i])
		h *= 1099511628211
	}
	return h
}

// RunSeed derives the per-run seed from the check seed, the property and the
// run number: one integer decides everything.
func RunSeed(seed uint64, prop string, run int) uint64 {
	return mix(mix(seed, hashString(prop)), uint64(run)+1)
}

func NewTape(seed uint64) *Tape {
	return &Tape{
		Seed: seed,
		Gen:  &Stream{rng: rand.New(rand.NewPCG(seed, 0x67656e))},
		Run:  &Stream{rng: rand.New(rand.NewPCG(seed, 0x72756e))},
	}
}

// ReplayTape feeds recorded draws back. In exact mode a kind/bound mismatch
// is an error (the code or the harness changed); in lenient mode (used while
// shrinking) values are reduced modulo the bound actually requested and
// missing entries read as 0.
func ReplayTape(seed uint64, gen, run []Draw, exact bool) *Tape {
	return &Tape{
		Seed: seed,
		Gen:  &Stream{replay: gen, exact: exact},
		Run:  &Stream{replay: run, exact: exact},
	}
}

func (s *Stream) Choose(kind string, n int) int {
	if n <= 1 {
		return 0
	}
	var v int
	if s.rng != nil {
		v = s.rng.IntN(n)
	} else {
		if s.pos < len(s.replay) {
			d := s.replay[s.pos]
			if s.exact && (d.K != kind || d.N != n) && s.Err == nil {
				s.Err = fmt.Errorf("tape mismatch at %d: recorded %s/%d, asked %s/%d", s.pos, d.K, d.N, kind, n)
			}
			v = d.V % n
			if v < 0 {
				v = 0
			}
		} else if s.exact && s.Err == nil {
			s.Err = fmt.Errorf("tape exhausted at %d asking %s/%d", s.pos, kind, n)
		}
		s.pos++
	}
	s.Rec = append(s.Rec, Draw{kind, n, v})
	return v
}

// Convenience generators on the gen stream.

type G struct{ s *Stream }

func (g G) N(kind string, n int) int { return g.s.Choose(kind, n) }

// Range returns a value in [lo, hi].
func (g G) Range(kind string, lo, hi int) int {
	if hi <= lo {
		return lo
	}
	return lo + g.s.Choose(kind, hi-lo+1)
}

func (g G) Bool(kind string) bool { return g.s.Choose(kind, 2) == 1 }

// Pct is true with probability p/100; value 0 of the draw means false, so a
// zeroed tape takes the "plain" branch.
func (g G) Pct(kind string, p int) bool { return g.s.Choose(kind, 100) >= 100-p }

// Pick returns an index weighted by w; index 0 is what a zeroed tape picks.
func (g G) Weighted(kind string, w ...int) int {
	tot := 0
	for _, x := range w {
		tot += x
	}
	v := g.s.Choose(kind, tot)
	for i, x := range w {
		if v < x {
			return i
		}
		v -= x
	}
	return len(w) - 1
}
