package sim

import (
	"crypto/ed25519"
	"crypto/tls"
	"crypto/x509"
	"crypto/x509/pkix"
	"math/big"
	"math/rand/v2"
	"time"
)

// TLS fixtures: Ed25519 keys derived from fixed seeds (signatures have a
// fixed size, so TLS record sizes do not vary from run to run) and
// certificates valid around the fake epoch 2000-01-01.

type CertSet struct {
	Domain  string
	roots   *x509.CertPool
	chains  map[int]tls.Certificate
	CACert  *x509.Certificate
	AltName string
}

func seedKey(b byte) ed25519.PrivateKey {
	seed := make([]byte, ed25519.SeedSize)
	for i := range seed {
		seed[i] = b + byte(i)
	}
	return ed25519.NewKeyFromSeed(seed)
}

type zeroReader struct{}

func (zeroReader) Read(p []byte) (int, error) {
	for i := range p {
		p[i] = 0
	}
	return len(p), nil
}

func mustCert(tmpl, parent *x509.Certificate, pub ed25519.PublicKey, signer ed25519.PrivateKey) (*x509.Certificate, []byte) {
	der, err := x509.CreateCertificate(zeroReader{}, tmpl, parent, pub, signer)
	if err != nil {
		panic(err)
	}
	c, err := x509.ParseCertificate(der)
	if err != nil {
		panic(err)
	}
	return c, der
}

func NewCertSet(domain string) *CertSet {
	cs := &CertSet{Domain: domain, chains: map[int]tls.Certificate{}, AltName: "alt.example"}
	nb := time.Date(1999, 12, 1, 0, 0, 0, 0, time.UTC)
	na := time.Date(2001, 1, 1, 0, 0, 0, 0, time.UTC)
	ca := func(name string, key ed25519.PrivateKey) (*x509.Certificate, ed25519.PrivateKey) {
		t := &x509.Certificate{SerialNumber: big.NewInt(1), Subject: pkix.Name{CommonName: name},
			NotBefore: nb, NotAfter: na, IsCA: true, BasicConstraintsValid: true,
			KeyUsage: x509.KeyUsageCertSign | x509.KeyUsageDigitalSignature}
		c, _ := mustCert(t, t, key.Public().(ed25519.PublicKey), key)
		return c, key
	}
	goodCA, goodKey := ca("verif fixture CA", seedKey(1))
	badCA, badKey := ca("some other CA", seedKey(50))
	cs.CACert = goodCA
	cs.roots = x509.NewCertPool()
	cs.roots.AddCert(goodCA)
	leaf := func(kind int, serial int64, names []string, nb, na time.Time, issuer *x509.Certificate, issuerKey ed25519.PrivateKey, keySeed byte) {
		key := seedKey(keySeed)
		t := &x509.Certificate{SerialNumber: big.NewInt(serial), Subject: pkix.Name{CommonName: names[0]},
			DNSNames: names, NotBefore: nb, NotAfter: na,
			KeyUsage: x509.KeyUsageDigitalSignature, ExtKeyUsage: []x509.ExtKeyUsage{x509.ExtKeyUsageServerAuth}}
		c, der := mustCert(t, issuer, key.Public().(ed25519.PublicKey), issuerKey)
		cs.chains[kind] = tls.Certificate{Certificate: [][]byte{der}, PrivateKey: key, Leaf: c}
	}
	leaf(CertGood, 10, []string{domain}, nb, na, goodCA, goodKey, 100)
	leaf(CertWrongHost, 11, []string{"other.example"}, nb, na, goodCA, goodKey, 101)
	leaf(CertUntrusted, 12, []string{domain}, nb, na, badCA, badKey, 102)
	leaf(CertExpired, 13, []string{domain}, nb, time.Date(1999, 12, 31, 0, 0, 0, 0, time.UTC), goodCA, goodKey, 103)
	leaf(CertAltName, 14, []string{cs.AltName}, nb, na, goodCA, goodKey, 104)
	leaf(CertBoth, 15, []string{domain, cs.AltName}, nb, na, goodCA, goodKey, 105)
	cs.chains[CertAbort] = cs.chains[CertGood]
	return cs
}

func (cs *CertSet) Roots() *x509.CertPool { return cs.roots }

type seededReader struct{ r *rand.ChaCha8 }

func (s seededReader) Read(p []byte) (int, error) { return s.r.Read(p) }

func SeededRand(seed uint64, salt byte) seededReader {
	var k [32]byte
	for i := 0; i < 8; i++ {
		k[i] = byte(seed >> (8 * i))
	}
	k[31] = salt
	return seededReader{rand.NewChaCha8(k)}
}

// ServerConfigTickets is ServerConfig for a server that hands out session tickets (TLS session
// resumption), all of them under one fixed key so that every connection of a run accepts them.
func (cs *CertSet) ServerConfigTickets(kind int, seed uint64) *tls.Config {
	cfg := cs.ServerConfig(kind, seed)
	cfg.SessionTicketsDisabled = false
	var key [32]byte
	for i := range key {
		key[i] = byte(i*7 + 1)
	}
	cfg.SetSessionTicketKeys([][32]byte{key})
	return cfg
}

func (cs *CertSet) ServerConfig(kind int, seed uint64) *tls.Config {
	return &tls.Config{
		Certificates:           []tls.Certificate{cs.chains[kind]},
		Rand:                   SeededRand(seed, 's'),
		SessionTicketsDisabled: true,
		MinVersion:             tls.VersionTLS12,
		Time:                   time.Now,
		// no hybrid ML-KEM key exchange: its encapsulation draws entropy that
		// cannot be seeded, and the ciphertext content would differ run to run
		CurvePreferences: []tls.CurveID{tls.X25519},
	}
}
