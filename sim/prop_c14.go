package sim

import (
	"encoding/base64"
	"errors"
	"strings"
	"time"

	xmpp "gosrc.io/xmpp"
)

// C14 — SASL: only an advertised, supported mechanism is used; the PLAIN
// payload is exact.

type c14Scenario struct {
	Client    ClientOpts `json:"client"`
	Server    NegScript  `json:"server"`
	Seg       int        `json:"segmentation"`
	LatencyNs int64      `json:"latency_ns"`
}

var localAlphabet = []string{"a", "b", "z", "A", "0", "7", ".", "-", "_", "&", "é", "ü", "日", "本", "✓", "+", "=", "%", "!", "~", "$", "*", "(", ")", ";", ",", "#", "𝔘"}
var secretAlphabet = []string{"a", "B", "3", " ", "&", "<", ">", "\"", "'", "]]>", "\x01", "\x00", "\x7f", "é", "日本", "\xff", "\xc3", "\t", "\n", "=", "/", "+", ":", "@", "𝔘", "\\"}

func genFrom(g G, kind string, alpha []string, lo, hi int) string {
	n := g.Range(kind+"-n", lo, hi)
	if g.Pct(kind+"-long", 5) {
		n = g.Range(kind+"-nl", 100, 300)
	}
	var b strings.Builder
	for i := 0; i < n; i++ {
		b.WriteString(alpha[g.N(kind+"-ch", len(alpha))])
	}
	return b.String()
}

func init() {
	register(&PropDef{
		ID:   "C14",
		Rule: "scenario = (local part over everything NewJid accepts, secret over arbitrary non-empty byte strings, credential kind, server mechanism list incl. unknown/duplicate/empty, reply to <auth/> from {success, failure(conditions), challenge, stanza, malformed, close}, segmentation, latency); non-trivial = the server sent its first stream features; distinct = distinct (scenario hash, schedule hash)",
		Real: []string{"xmpp.authSASL / authPlain", "xmpp.NewSession", "xmpp.XMPPTransport", "stanza codec"},
		Stub: []string{"TCP (simnet)", "XMPP server (scripted model; <auth/> decoded by the harness with encoding/base64)", "clock (synctest)", "goroutine scheduling (token scheduler)"},
		Run:  runC14,
	})
}

func runC14(e *Engine, g G, o RunOpt) RunInfo {
	sc := &c14Scenario{Client: DefaultClientOpts(), Server: DefaultNeg()}
	sc.Client.User = genFrom(g, "user", localAlphabet, 1, 12)
	sc.Client.Secret = genFrom(g, "secret", secretAlphabet, 1, 20)
	sc.Client.OAuth = g.Pct("oauth", 35)
	pool := []string{"PLAIN", "X-OAUTH2", "SCRAM-SHA-1", "ANONYMOUS", "DIGEST-MD5", "X-FOO", "plain", "PLAIN "}
	nm := g.Range("nmech", 0, 5)
	sc.Server.Mechs = []string{}
	for i := 0; i < nm; i++ {
		sc.Server.Mechs = append(sc.Server.Mechs, pool[g.Weighted("mech", 4, 3, 2, 1, 1, 1, 1, 1)])
	}
	if g.Pct("authdev", 45) {
		sc.Server.AuthReply = 1 + g.N("authreply", 5)
		if sc.Server.AuthReply == AuthFailure {
			sc.Server.AuthCond = []string{"not-authorized", "credentials-expired", "temporary-auth-failure", "account-disabled", "aborted"}[g.N("authcond", 5)]
		}
	}
	sc.Server.Prefixed = g.Bool("prefixed")
	sc.Server.DelayMs = []int{0, 0, 30}[g.N("delay", 3)]
	sc.Seg, sc.LatencyNs = netModes(g, e)

	var callErr error
	var srv *Server
	e.Run(func() {
		srv = NewServer(e, SimDomain)
		srv.Scripts = []NegScript{sc.Server}
		w := NewCW(e, sc.Client, sharedCerts())
		w.CatchAll()
		if err := w.Create(); err != nil {
			callErr = err
			e.Logf("setup", "NewClient: %v", err)
			return
		}
		callErr, _ = e.Call("Connect", w.Client.Connect)
		e.Sleep(time.Duration(sc.Client.ConnectTimeout+5) * time.Second)
	})
	info := RunInfo{Scenario: sc, Nontrivial: srv != nil && len(srv.Conns) == 1 && len(srv.Conns[0].Sent) >= 2}
	if e.Stuck != "" {
		e.Violate("C14", "hang", "%s", e.Stuck)
	}
	for _, p := range e.Panics {
		e.Violate("C14", "panic:"+panicSite(p), "%s: %s", p.Where, p.Value)
	}
	if !info.Nontrivial {
		e.Probe("precondition_failed")
		return info
	}
	conn := srv.Conns[0]
	mech := "PLAIN"
	if sc.Client.OAuth {
		mech = "X-OAUTH2"
	}
	offered := false
	for _, m := range sc.Server.Mechs {
		if m == mech {
			offered = true
		}
	}
	var ce xmpp.ConnError
	isConnErr := errors.As(callErr, &ce)
	auths := conn.AuthSeen
	after := 0 // requests after the auth step
	seenAuth := false
	for _, r := range conn.Recv {
		k := classifyReq(r)
		if k == "auth" {
			seenAuth = true
			continue
		}
		if seenAuth && (k == "bind" || k == "resume" || k == "session" || k == "enable" || strings.HasPrefix(k, "stanza:")) {
			after++
		}
		if !seenAuth && (k == "bind" || k == "resume" || strings.HasPrefix(k, "stanza:")) {
			e.Violate("C14", "request-without-authentication", "client sent %s without having authenticated", k)
		}
	}
	if !offered {
		e.Probe("c14.no_common_mechanism")
		if len(auths) > 0 {
			e.Violate("C14", "mechanism-not-offered", "server offered %q, client sent <auth mechanism=%q>", sc.Server.Mechs, auths[0].Attr("mechanism"))
		}
		if callErr == nil {
			e.Violate("C14", "connected-without-mechanism", "Connect returned nil although no common mechanism exists")
		} else if !isConnErr || !ce.Permanent {
			e.Violate("C14", "no-mechanism-not-permanent", "no common mechanism must be a permanent error, got %T %v", callErr, callErr)
		}
		return info
	}
	if len(auths) != 1 {
		e.Violate("C14", "auth-count="+cnt(len(auths)), "expected exactly one <auth/>, server received %d", len(auths))
		return info
	}
	a := auths[0]
	if got := a.Attr("mechanism"); got != mech {
		e.Violate("C14", "wrong-mechanism", "credential supports %s, server offered %q, client used %q", mech, sc.Server.Mechs, got)
	}
	raw, derr := base64.StdEncoding.DecodeString(strings.TrimSpace(a.Text))
	want := "\x00" + sc.Client.User + "\x00" + sc.Client.Secret
	if derr != nil {
		e.Violate("C14", "payload-not-base64", "auth payload %q: %v", a.Text, derr)
	} else if string(raw) != want {
		e.Violate("C14", "payload-mismatch", "auth payload decodes to %q, expected %q", raw, want)
	}
	switch sc.Server.AuthReply {
	case AuthSuccess:
		if callErr != nil {
			e.Violate("C14", "success-rejected", "server answered <success/>, Connect returned %v", callErr)
		}
		e.Probe("c14.success")
	default:
		e.Probe("c14.reply." + []string{"success", "failure", "challenge", "stanza", "malformed", "close"}[sc.Server.AuthReply])
		if callErr == nil {
			e.Violate("C14", "authenticated-without-success", "server answered %d to <auth/>, Connect returned nil", sc.Server.AuthReply)
		}
		if after > 0 {
			e.Violate("C14", "requests-after-failed-auth", "%d bind/resume/stanza requests after an authentication that did not succeed", after)
		}
		if sc.Server.AuthReply == AuthFailure && callErr != nil && (!isConnErr || !ce.Permanent) {
			e.Violate("C14", "failure-not-permanent", "<failure/> must be a permanent error, got %T %v", callErr, callErr)
		}
	}
	return info
}
