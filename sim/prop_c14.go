package sim

import (
	"encoding/base64"
	"errors"
	"io"
	"strings"
	"time"

	xmpp "gosrc.io/xmpp"
)

// C14 — SASL: only an advertised, supported mechanism is used; the PLAIN
// payload is exact.

type c14Scenario struct {
	Client    ClientOpts  `json:"client"`
	Servers   []NegScript `json:"connections"` // one script per connection of the history (Connect, loss, Resume)
	TLS       bool        `json:"tls"`
	Seg       int         `json:"segmentation"`
	LatencyNs int64       `json:"latency_ns"`
}

var localAlphabet = []string{"%", "%v", "a", "b", "z", "A", "0", "7", ".", "-", "_", "&", "é", "ü", "日", "本", "✓", "+", "=", "%", "!", "~", "$", "*", "(", ")", ";", ",", "#", "𝔘"}
var secretAlphabet = []string{"%", "%s", "%%", "%d", "%!", "a", "B", "3", " ", "&", "<", ">", "\"", "'", "]]>", "\x01", "\x00", "\x7f", "é", "日本", "\xff", "\xc3", "\t", "\n", "=", "/", "+", ":", "@", "𝔘", "\\"}

func genFrom(g G, kind string, alpha []string, lo, hi int) string {
	n := g.Range(kind+"-n", lo, hi)
	if g.Pct(kind+"-long", 5) {
		n = g.Range(kind+"-nl", 100, 300)
	}
	var b strings.Builder
	for i := 0; i < n; i++ {
		b.WriteString(alpha[g.N(kind+"-ch", len(alpha))])
	}
	return b.String()
}

func init() {
	register(&PropDef{
		ID:   "C14",
		Rule: "scenario = (local part over everything NewJid accepts, secret over arbitrary non-empty byte strings, credential kind, server mechanism list incl. unknown/duplicate/empty, reply to <auth/> from {success, failure(conditions), challenge, stanza, malformed, close}, segmentation, latency); non-trivial = the server sent its first stream features; distinct = distinct (scenario hash, schedule hash)",
		Real: []string{"xmpp.authSASL / authPlain", "xmpp.NewSession", "xmpp.XMPPTransport", "stanza codec"},
		Stub: []string{"TCP (simnet)", "XMPP server (scripted model; <auth/> decoded by the harness with encoding/base64)", "clock (synctest)", "goroutine scheduling (token scheduler)"},
		Run:  runC14,
	})
}

func c14Mechs(g G, kind string) []string {
	pool := []string{"PLAIN", "X-OAUTH2", "SCRAM-SHA-1", "ANONYMOUS", "DIGEST-MD5", "X-FOO", "plain", "PLAIN "}
	nm := g.Range(kind+"-n", 0, 5)
	out := []string{}
	for i := 0; i < nm; i++ {
		out = append(out, pool[g.Weighted(kind, 4, 3, 2, 1, 1, 1, 1, 1)])
	}
	return out
}

func runC14(e *Engine, g G, o RunOpt) RunInfo {
	sc := &c14Scenario{Client: DefaultClientOpts()}
	sc.Client.User = genFrom(g, "user", localAlphabet, 1, 12)
	sc.Client.Secret = genFrom(g, "secret", secretAlphabet, 1, 20)
	sc.Client.OAuth = g.Pct("oauth", 35)
	sc.TLS = g.Pct("tls", 25)
	// with a resumable stream-managed session pending, a refusal on the reconnection is as permanent as ever
	sc.Client.SM = g.Pct("sm", 30)
	nconn := 1 + g.Weighted("history", 7, 3+3*btoi(sc.Client.SM))
	for i := 0; i < nconn; i++ {
		sv := DefaultNeg()
		sv.Mechs = c14Mechs(g, "mech")
		sv.SM = sc.Client.SM
		if g.Pct("foreign-mechanism-children", 15) {
			// ... nor is a child of another namespace inside the SASL list
			sv.ForeignMechKids = []string{"PLAIN", "X-OAUTH2"}
		}
		if g.Pct("foreign-mechanisms", 20) {
			// what another protocol offers is no offer of RFC 6120 SASL
			sv.ForeignMechs = []string{"PLAIN", "X-OAUTH2", "SCRAM-SHA-1"}
		}
		if sc.TLS {
			sv.StartTLS = TLSRequired
			sv.Cert = CertGood
			// what is advertised before TLS says nothing about what is on offer afterwards
			sv.MechsTLS = c14Mechs(g, "mechtls")
			if g.Pct("injected-behind-proceed", 30) {
				// clear text injected right behind <proceed/> (same segment): a stream header with a mechanism
				// list of the attacker's liking, or a <success/>. The authenticated server said none of it.
				sv.ProceedTrailer = []string{
					"<?xml version='1.0'?><stream:stream id='injected' from='" + SimDomain + "' xmlns='jabber:client' xmlns:stream='" + nsStream + "' version='1.0'><stream:features><mechanisms xmlns='" + nsSASL + "'><mechanism>PLAIN</mechanism><mechanism>X-OAUTH2</mechanism></mechanisms></stream:features>",
					"<success xmlns='" + nsSASL + "'/>",
					"<stream:features><mechanisms xmlns='" + nsSASL + "'><mechanism>PLAIN</mechanism><mechanism>X-OAUTH2</mechanism></mechanisms></stream:features>",
				}[g.N("injected-what", 3)]
			}
		}
		if g.Pct("authdev", 45) {
			sv.AuthReply = 1 + g.N("authreply", 5)
			if sv.AuthReply == AuthFailure {
				sv.AuthCond = []string{"not-authorized", "credentials-expired", "temporary-auth-failure", "account-disabled", "aborted"}[g.N("authcond", 5)]
				// many servers end the stream, or just drop the connection, of a client they have refused
				sv.AuthFailDrop = g.Weighted("after-failure", 5, 2, 3)
			}
		}
		sv.Prefixed = g.Bool("prefixed")
		sv.DelayMs = []int{0, 0, 30}[g.N("delay", 3)]
		sc.Servers = append(sc.Servers, sv)
	}
	if !sc.TLS && g.Pct("stream-domain", 20) {
		// the stream is opened to another domain than the JID's (hosted domains): the SASL identity
		// is still the local part
		sc.Client.StreamDomain = []string{"hosted.example", SimDomain}[g.N("stream-domain-which", 2)]
	}
	if sc.TLS {
		sc.Client.Insecure = false
		sc.Client.TLS = TLSCfgRoots
	}
	sc.Seg, sc.LatencyNs = netModes(g, e)

	var errs []error
	var srv *Server
	e.Run(func() {
		srv = NewServer(e, SimDomain)
		srv.Certs = sharedCerts()
		srv.Scripts = sc.Servers
		w := NewCW(e, sc.Client, sharedCerts())
		w.CatchAll()
		if err := w.Create(); err != nil {
			e.Logf("setup", "NewClient: %v", err)
			return
		}
		for i := range sc.Servers {
			var err error
			if i == 0 {
				err, _ = e.Call("Connect", w.Client.Connect)
			} else {
				err, _ = e.Call("Resume", w.Client.Resume)
			}
			errs = append(errs, err)
			e.Sleep(200 * time.Millisecond)
			if i == len(sc.Servers)-1 || len(srv.Conns) <= i {
				break
			}
			// lose the connection before the next attempt
			c := srv.Conns[i]
			if cli := c.Pipe.Cli; !cli.IsClosed() && cli.rTerm == nil {
				cli.CutAt = c.End.TotalWritten
				cli.CutErr = io.EOF
			}
			e.Sleep(time.Duration(sc.Client.ConnectTimeout+3) * time.Second)
		}
		e.Sleep(time.Duration(sc.Client.ConnectTimeout+5) * time.Second)
	})
	info := RunInfo{Scenario: sc, Nontrivial: srv != nil && len(srv.Conns) >= 1 && len(srv.Conns[0].Sent) >= 2}
	if e.Stuck != "" {
		e.Violate("C14", "hang", "%s", e.Stuck)
	}
	for _, p := range e.Panics {
		e.Violate("C14", "panic:"+panicSite(p), "%s: %s", p.Where, p.Value)
	}
	if !info.Nontrivial {
		e.Probe("precondition_failed")
		return info
	}
	for i, conn := range srv.Conns {
		if i >= len(errs) || len(conn.Sent) < 2 {
			continue
		}
		c14Check(e, sc, i, conn, errs[i])
		if i > 0 {
			e.Probe("c14.second_connection")
		}
	}
	return info
}

// c14Check is the oracle for one connection of the history.
func c14Check(e *Engine, sc *c14Scenario, ci int, conn *SrvConn, callErr error) {
	script := sc.Servers[ci]
	mech := "PLAIN"
	if sc.Client.OAuth {
		mech = "X-OAUTH2"
	}
	// the list that counts is the one advertised on the stream the client authenticates on
	list := script.Mechs
	if script.MechsTLS != nil && conn.TLS {
		list = script.MechsTLS
	}
	if sc.TLS && !conn.TLS {
		return // TLS did not come up: no authentication is expected at all (C04's business)
	}
	offered := false
	for _, m := range list {
		if m == mech {
			offered = true
		}
	}
	var ce xmpp.ConnError
	isConnErr := errors.As(callErr, &ce)
	auths := conn.AuthSeen
	after := 0 // requests after the auth step
	seenAuth := false
	for _, r := range conn.Recv {
		k := classifyReq(r)
		if k == "auth" {
			seenAuth = true
			continue
		}
		if seenAuth && (k == "bind" || k == "resume" || k == "session" || k == "enable" || strings.HasPrefix(k, "stanza:")) {
			after++
		}
		if !seenAuth && (k == "bind" || k == "resume" || strings.HasPrefix(k, "stanza:")) {
			e.Violate("C14", "request-without-authentication", "connection #%d: client sent %s without having authenticated", ci, k)
		}
	}
	if !offered {
		e.Probe("c14.no_common_mechanism")
		if len(auths) > 0 {
			e.Violate("C14", "mechanism-not-offered", "connection #%d: server offered %q on this stream, client sent <auth mechanism=%q>", ci, list, auths[0].Attr("mechanism"))
		}
		if callErr == nil {
			e.Violate("C14", "connected-without-mechanism", "connection #%d: the call returned nil although no common mechanism exists", ci)
		} else if !isConnErr || !ce.Permanent {
			e.Violate("C14", "no-mechanism-not-permanent", "connection #%d: no common mechanism must be a permanent error, got %T %v", ci, callErr, callErr)
		}
		return
	}
	if len(auths) != 1 {
		e.Violate("C14", "auth-count="+cnt(len(auths)), "connection #%d: expected exactly one <auth/>, server received %d", ci, len(auths))
		return
	}
	a := auths[0]
	if got := a.Attr("mechanism"); got != mech {
		e.Violate("C14", "wrong-mechanism", "connection #%d: credential supports %s, server offered %q, client used %q", ci, mech, list, got)
	}
	raw, derr := base64.StdEncoding.DecodeString(strings.TrimSpace(a.Text))
	want := "\x00" + sc.Client.User + "\x00" + sc.Client.Secret
	if derr != nil {
		e.Violate("C14", "payload-not-base64", "connection #%d: auth payload %q: %v", ci, a.Text, derr)
	} else if string(raw) != want {
		e.Violate("C14", "payload-mismatch", "connection #%d: auth payload decodes to %q, expected %q", ci, raw, want)
	}
	switch script.AuthReply {
	case AuthSuccess:
		if callErr != nil {
			e.Violate("C14", "success-rejected", "connection #%d: server answered <success/>, the call returned %v", ci, callErr)
		}
		e.Probe("c14.success")
	default:
		e.Probe("c14.reply." + []string{"success", "failure", "challenge", "stanza", "malformed", "close"}[script.AuthReply])
		if callErr == nil {
			e.Violate("C14", "authenticated-without-success", "connection #%d: server answered %d to <auth/>, the call returned nil", ci, script.AuthReply)
		}
		if after > 0 {
			e.Violate("C14", "requests-after-failed-auth", "connection #%d: %d bind/resume/stanza requests after an authentication that did not succeed", ci, after)
		}
		if script.AuthReply == AuthFailure && callErr != nil && (!isConnErr || !ce.Permanent) {
			e.Violate("C14", "failure-not-permanent", "connection #%d: <failure/> must be a permanent error, got %T %v", ci, callErr, callErr)
		}
	}
}
