package sim

import (
	"bytes"
	"context"
	"encoding/xml"
	"fmt"
	"io"
	"strings"
	"time"

	xmpp "gosrc.io/xmpp"
	"gosrc.io/xmpp/stanza"
)

// C08 — each send puts exactly the serialized stanza on the wire once, even
// concurrently; a failed write is reported.

type c08Op struct {
	Task int    `json:"task"`
	API  string `json:"api"`  // Send | SendRaw | SendIQ
	Kind string `json:"kind"` // message | presence | iq
	ID   string `json:"id"`
	Size int    `json:"size"`
}

type c08Scenario struct {
	AfterReconnect bool       `json:"after_reconnect,omitempty"` // the sends happen on a session re-established by Resume after a loss
	WebSocket      bool       `json:"websocket"`
	Component      bool       `json:"component"`
	TLS            bool       `json:"tls"`
	Client         ClientOpts `json:"client"`
	Ops            []c08Op    `json:"ops"`
	Tasks          int        `json:"tasks"`
	NotConnected   string     `json:"sends_without_a_connection,omitempty"` // never-connected | dial-refused
	BackPressure   int        `json:"backpressure_window,omitempty"`        // >0: the server's receive window; it stops reading for a while
	StallMs        int        `json:"server_stops_reading_ms,omitempty"`
	FailWrite      int        `json:"fail_write_j"` // j-th socket write after establishment fails (0: none)
	Partial        int        `json:"fail_partial_bytes"`
	Seg            int        `json:"segmentation"`
	LatencyNs      int64      `json:"latency_ns"`
}

func init() {
	register(&PropDef{
		ID:    "C08",
		Rule:  "scenario = (client or component, TCP or TCP+TLS, SM on/off, traffic logger none/recording/failing, 1-4 sender tasks x 1-10 Send/SendRaw/SendIQ of stanzas up to 64 KiB, optional socket write failure at the j-th write with 0 or partial bytes); non-trivial = session established and at least two sends issued; distinct = distinct (scenario hash, schedule hash)",
		Real:  []string{"Client/Component Send, SendRaw, SendIQ", "streamLogger", "XMPPTransport.Write (over crypto/tls in the TLS configuration)", "SM bookkeeping on the send path"},
		Stub:  []string{"TCP (simnet) with write-failure injection", "XMPP server (scripted model; byte stream re-split by the independent splitter)", "log file (in-memory writer with injected errors)", "clock (synctest)", "goroutine scheduling (token scheduler)", "WebSocket transport not exercised"},
		Run:   runC08,
		Reach: []string{"c08.websocket", "c08.backpressure", "c08.socket_write_failed", "c08.sends_without_a_connection", "tls.handshake_complete"},
	})
}

func c08Body(id string, size int) string {
	// (with text a formatting function would mangle: the payload is data, not a format)
	base := "body of " + id + " 50% done %s %d %% %!x(MISSING) "
	if size <= len(base) {
		return base
	}
	return base + strings.Repeat("x", size-len(base))
}

func runC08(e *Engine, g G, o RunOpt) RunInfo {
	sc := &c08Scenario{Client: DefaultClientOpts()}
	if g.Pct("not-connected", 4) {
		return runC08NotConnected(e, g, sc)
	}
	sc.Component = g.Pct("component", 25)
	sc.TLS = !sc.Component && g.Pct("tls", 25)
	sc.WebSocket = !sc.Component && !sc.TLS && g.Pct("websocket", 20)
	sc.Client.SM = g.Bool("sm")
	sc.Client.Logger = g.Weighted("logger", 5, 3, 2)
	sc.Tasks = g.Range("tasks", 1, 4)
	n := 0
	for t := 0; t < sc.Tasks; t++ {
		k := g.Range("nops", 1, 10)
		if sc.Tasks > 2 && k > 5 {
			k = 5
		}
		for i := 0; i < k; i++ {
			n++
			op := c08Op{Task: t, ID: fmt.Sprintf("s%d", n)}
			op.API = []string{"Send", "SendRaw", "SendIQ"}[g.Weighted("api", 5, 3, 2)]
			op.Kind = []string{"message", "presence", "iq"}[g.Weighted("kind", 6, 2, 2)]
			if op.API == "SendIQ" {
				op.Kind = "iq"
			} else if g.Pct("sm-element", 8) {
				// what an application sends need not be a stanza: an acknowledgement of its own making
				// goes to the wire like anything else, whatever the stream-management setting
				op.Kind = "sm-answer"
			}
			op.Size = []int{0, 0, 200, 5000, 40000, 66000}[g.Weighted("size", 5, 3, 3, 2, 1, 1)]
			if sc.WebSocket && op.Size > 66000 {
				op.Size = 66000
			}
			sc.Ops = append(sc.Ops, op)
		}
	}
	if g.Pct("failwrite", 30) {
		sc.FailWrite = g.Range("failj", 1, n+1)
		sc.Partial = []int{0, 0, 1, 17, 300}[g.N("partial", 5)]
	}
	if !sc.TLS && !sc.WebSocket && sc.FailWrite == 0 && g.Pct("backpressure", 15) {
		// a slow server: senders block in the middle of their writes and queue up behind each other
		sc.BackPressure = []int{600, 3000, 20000}[g.N("window", 3)]
		// ... for longer than any timeout the client is configured with, sometimes
		sc.StallMs = []int{2000, 2000, 20000, 50000}[g.N("stall", 4)]
	}
	sc.AfterReconnect = !sc.Component && !sc.WebSocket && !sc.TLS && g.Pct("after-reconnect", 20)
	sc.Seg, sc.LatencyNs = netModes(g, e)
	script := DefaultNeg()
	script.SM = sc.Client.SM
	if sc.TLS {
		sc.Client.Insecure = false
		sc.Client.TLS = TLSCfgRoots
		script.StartTLS = TLSRequired
		script.Cert = CertGood
	}

	type callRec struct {
		op      c08Op
		payload []byte
		err     error
		done    bool
		started bool
	}
	calls := make([]*callRec, len(sc.Ops))
	var conn *SrvConn
	var wsc *WSConn
	var cliEnd *End
	wsFramesAtEst := 0
	var logw *LogWriter
	established := false
	var estItems int
	tasksDone := 0
	var cancelAll []context.CancelFunc

	build := func(op c08Op) (stanza.Packet, []byte) {
		var p stanza.Packet
		switch op.Kind {
		case "message":
			p = stanza.Message{Attrs: stanza.Attrs{Id: op.ID, To: "peer@" + SimDomain, Type: stanza.MessageTypeChat}, Body: c08Body(op.ID, op.Size)}
		case "presence":
			p = stanza.Presence{Attrs: stanza.Attrs{Id: op.ID, To: "peer@" + SimDomain}, Status: c08Body(op.ID, op.Size)}
		case "sm-answer":
			h := uint(0)
			fmt.Sscanf(op.ID, "s%d", &h)
			p = stanza.SMAnswer{XMLName: xml.Name{Space: nsSM, Local: "a"}, H: 100000 + h}
		default:
			iq, _ := stanza.NewIQ(stanza.Attrs{Type: stanza.IQTypeGet, Id: op.ID, To: SimDomain})
			iq.Payload = &stanza.Version{Name: c08Body(op.ID, op.Size)}
			p = iq
		}
		b, err := xml.Marshal(p)
		if err != nil {
			panic(err)
		}
		return p, b
	}

	e.Run(func() {
		var sender xmpp.Sender
		if sc.WebSocket {
			sc.Client.Insecure = true
			s, ok := StartClientWS(e, sc.Client, sc.Client.SM, func(w *CW) { w.CatchAll() })
			defer s.WS.Stop()
			if !ok {
				return
			}
			e.Sleep(50 * time.Millisecond)
			sender = s.W.Client
			wsc = s.WSC
			logw = s.W.LogW
			wsFramesAtEst = len(wsc.RecvRaw)
			e.Probe("c08.websocket")
		} else if sc.Component {
			w, _, c, ok := StartComponent(e, "s3cr3t", script, func(w *CompW, s *Server) { w.CatchAll() })
			if !ok {
				return
			}
			sender = w.Comp
			conn = c
		} else {
			s, ok := StartClient(e, sc.Client, []NegScript{script}, func(w *CW, s *Server) { w.CatchAll() })
			if !ok {
				return
			}
			sender = s.W.Client
			conn = s.Conn
			logw = s.W.LogW
			if sc.AfterReconnect {
				c0 := s.Conn
				c0.Pipe.Cli.CutAt = c0.End.TotalWritten
				c0.Pipe.Cli.CutErr = io.EOF
				if e.WaitUntilFor("first-loss", time.Minute, func() bool { return countState(s.W.Events, xmpp.StateDisconnected) > 0 }) {
					return
				}
				e.Sleep(time.Second)
				err, _ := e.Call("Resume", s.W.Client.Resume)
				if err != nil || len(s.Srv.Conns) != 2 {
					return
				}
				e.Sleep(100 * time.Millisecond)
				conn = s.Srv.Conns[1]
				e.Probe("c08.after_reconnect")
			}
		}
		established = true
		var cli *End
		if wsc != nil {
			cli = wsc.Pipe.Cli
		} else {
			estItems = len(conn.Recv)
			cli = conn.Pipe.Cli
		}
		cliEnd = cli
		if sc.FailWrite > 0 {
			cli.FailWriteAt = cli.Writes + sc.FailWrite
			cli.FailPartial = sc.Partial
		}
		if sc.BackPressure > 0 && conn != nil {
			conn.End.RecvWindow = sc.BackPressure
			conn.PauseReads = true
			e.Probe("c08.backpressure")
			e.Go("unpause", func() {
				e.Sleep(time.Duration(sc.StallMs)*time.Millisecond + 41*time.Microsecond)
				conn.PauseReads = false
			})
		}
		for t := 0; t < sc.Tasks; t++ {
			t := t
			e.Go(fmt.Sprintf("sender%d", t), func() {
				defer func() { tasksDone++ }()
				for i, op := range sc.Ops {
					if op.Task != t {
						continue
					}
					p, payload := build(op)
					cr := &callRec{op: op, payload: payload, started: true}
					calls[i] = cr
					var err error
					switch op.API {
					case "Send":
						err, _ = e.Call("Send "+op.ID, func() error { return sender.Send(p) })
					case "SendRaw":
						err, _ = e.Call("SendRaw "+op.ID, func() error { return sender.SendRaw(string(payload)) })
					default:
						ctx, cancel := context.WithCancel(context.Background())
						cancelAll = append(cancelAll, cancel)
						err, _ = e.Call("SendIQ "+op.ID, func() error {
							_, err := sender.SendIQ(ctx, p.(*stanza.IQ))
							return err
						})
					}
					cr.err = err
					cr.done = true
				}
			})
		}
		// the harness' patience, not a bound of the property: with a small window and a slow link every
		// window-full of a large stanza costs a round trip
		patience := 10 * time.Minute
		if sc.BackPressure > 0 {
			total := 0
			for _, op := range sc.Ops {
				total += op.Size + 300
			}
			patience += time.Duration(total/sc.BackPressure+1) * (2*time.Duration(sc.LatencyNs) + time.Millisecond)
		}
		e.WaitUntilFor("senders", patience, func() bool { return tasksDone == sc.Tasks })
		if sc.BackPressure > 0 && conn != nil {
			// what the kernel accepted is only seen by the server once it reads again
			e.WaitUntilFor("server-reads-again", time.Duration(sc.StallMs)*time.Millisecond+time.Minute, func() bool { return !conn.PauseReads })
		}
		e.Sleep(5 * time.Second)
		for _, c := range cancelAll {
			c()
			e.Yield("cancel")
		}
		e.Sleep(time.Second)
	})

	info := RunInfo{Scenario: sc, Nontrivial: established && len(sc.Ops) >= 2}
	if !established {
		e.Probe("precondition_failed")
		return info
	}
	if e.Stuck != "" {
		e.Violate("C08", "stuck", "%s", e.Stuck)
	}
	for _, p := range e.Panics {
		e.Violate("C08", "panic:"+panicSite(p), "%s: %s", p.Where, p.Value)
	}
	cli := cliEnd
	socketFailed := cli.writeBroken
	if socketFailed {
		e.Probe("c08.socket_write_failed")
	}
	// what the server saw after establishment
	seen := map[string]int{}
	var unknown []string
	var readErr error
	if wsc != nil {
		// one stanza per WebSocket message
		for _, raw := range wsc.RecvRaw[wsFramesAtEst:] {
			if raw == xmpp.InitialPresence || strings.Contains(raw, nsFraming) {
				continue
			}
			seen[raw]++
		}
	} else {
		readErr = conn.ReadErr
		for _, r := range conn.Recv[estItems:] {
			switch r.Item.Kind {
			case ItemText:
				if strings.TrimSpace(string(r.Item.Raw)) != "" {
					unknown = append(unknown, fmt.Sprintf("text %q", clip(string(r.Item.Raw), 60)))
				}
			case ItemElem:
				raw := string(r.Item.Raw)
				if raw == xmpp.InitialPresence {
					continue
				}
				seen[raw]++
			case ItemOpen:
				unknown = append(unknown, "stream header "+clip(string(r.Item.Raw), 60))
			}
		}
	}
	expected := map[string]*callRec{}
	for _, c := range calls {
		if c != nil {
			expected[string(c.payload)] = c
		}
	}
	// nothing foreign on the wire (before a socket failure tears the stream)
	for raw, n := range seen {
		if _, ok := expected[raw]; !ok {
			if socketFailed {
				continue // torn tail of the failing write
			}
			unknown = append(unknown, fmt.Sprintf("%dx %s", n, clip(raw, 120)))
		}
	}
	if readErr != nil && !socketFailed && !strings.Contains(readErr.Error(), "closed") && !strings.Contains(readErr.Error(), "EOF") {
		unknown = append(unknown, "stream not well-formed: "+readErr.Error())
	}
	if len(unknown) > 0 {
		e.Violate("C08", "foreign-bytes-on-wire", "the server received something that is none of the sent stanzas: %v", unknown)
	}
	for _, c := range calls {
		if c == nil || !c.done {
			if c != nil && c.started {
				e.Violate("C08", "send-never-returned", "%s %s never returned", c.op.API, c.op.ID)
			}
			continue
		}
		n := seen[string(c.payload)]
		switch {
		case c.err == nil && n == 0 && !socketFailed:
			e.Violate("C08", "sent-ok-but-not-on-wire:"+c.op.API, "%s %s returned nil but its %d bytes never reached the server whole", c.op.API, c.op.ID, len(c.payload))
		case c.err == nil && n == 0 && socketFailed:
			e.Violate("C08", "write-failure-not-reported:"+c.op.API, "%s %s returned nil, its bytes never reached the server and the socket write failed", c.op.API, c.op.ID)
		case n > 1:
			e.Violate("C08", "duplicated-on-wire:"+c.op.API, "%s %s appears %d times on the wire", c.op.API, c.op.ID, n)
		}
	}
	// (what the traffic log contains is not part of the property: only observed)
	if logw != nil && sc.Client.Logger == 1 && !socketFailed {
		missing := 0
		for _, c := range calls {
			if c != nil && c.done && c.err == nil && !bytes.Contains(logw.Data, c.payload) {
				missing++
			}
		}
		if missing > 0 {
			e.Probe("c08.payload_missing_from_traffic_log")
		}
		e.Probe("c08.logger_checked")
	}
	if logw != nil && logw.Fails > 0 {
		e.Probe("c08.log_write_failed")
	}
	return info
}

// runC08NotConnected: sends on a client that has no connection (it never connected, or its only
// dial was refused) cannot put anything on a wire: each of them has to say so with an error.
func runC08NotConnected(e *Engine, g G, sc *c08Scenario) RunInfo {
	sc.WebSocket = g.Bool("websocket")
	sc.Client.WebSocket = sc.WebSocket
	sc.Client.Logger = g.Weighted("logger", 5, 3)
	sc.NotConnected = []string{"never-connected", "dial-refused"}[g.N("how", 2)]
	type res struct {
		api      string
		err      error
		panicked bool
	}
	var results []res
	created := false
	e.Run(func() {
		var ws *WSServer
		if sc.WebSocket {
			ws = NewWSServer(e)
			defer ws.Stop()
		}
		w := NewCW(e, sc.Client, sharedCerts())
		w.CatchAll()
		if err := w.Create(); err != nil {
			return
		}
		created = true
		if sc.NotConnected == "dial-refused" {
			e.Net.DialPlan = func(int) Dial { return DialRefuse }
			e.Call("Connect", w.Client.Connect)
			e.Sleep(time.Duration(sc.Client.ConnectTimeout+2) * time.Second)
		}
		for _, api := range []string{"Send", "SendRaw", "SendIQ"} {
			api := api
			err, p := e.Call(api+" without a connection", func() error {
				switch api {
				case "Send":
					return w.Client.Send(stanza.Message{Attrs: stanza.Attrs{Id: "nc1", To: "peer@" + SimDomain}, Body: "nobody there"})
				case "SendRaw":
					return w.Client.SendRaw("<message id='nc2' to='peer@" + SimDomain + "'><body>nobody there</body></message>")
				default:
					iq, _ := stanza.NewIQ(stanza.Attrs{Type: stanza.IQTypeGet, Id: "nc3", To: SimDomain})
					iq.Payload = &stanza.Version{}
					ctx, cancel := context.WithCancel(context.Background())
					defer cancel()
					_, err := w.Client.SendIQ(ctx, iq)
					return err
				}
			})
			results = append(results, res{api, err, p})
		}
		e.Sleep(time.Second)
	})
	info := RunInfo{Scenario: sc, Nontrivial: created}
	if !created {
		return info
	}
	e.Probe("c08.sends_without_a_connection")
	if e.Stuck != "" {
		e.Violate("C08", "stuck", "%s", e.Stuck)
	}
	for _, r := range results {
		switch {
		case r.panicked:
			e.Violate("C08", "send-without-connection-panics:"+r.api, "%s on a client without a connection (%s, websocket=%v) panicked instead of returning an error", r.api, sc.NotConnected, sc.WebSocket)
		case r.err == nil:
			e.Violate("C08", "send-without-connection-succeeds:"+r.api, "%s on a client without a connection (%s, websocket=%v) returned nil", r.api, sc.NotConnected, sc.WebSocket)
		}
	}
	for _, p := range e.Panics {
		if !strings.HasPrefix(p.Where, "harness:") {
			e.Violate("C08", "panic", "%s: %s", p.Where, p.Value)
		}
	}
	return info
}
