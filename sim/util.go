package sim

import "encoding/xml"

func xmlMarshalImpl(v interface{}) ([]byte, error) { return xml.Marshal(v) }

func btoi(b bool) int {
	if b {
		return 1
	}
	return 0
}
