package sim

import "encoding/xml"

func xmlMarshalImpl(v interface{}) ([]byte, error) { return xml.Marshal(v) }
