package sim

import (
	"fmt"
	"os"
	"regexp"
	"runtime"
	"sort"
	"strings"
	"sync"
	"sync/atomic"
	"testing/synctest"
	"time"
)

// Epoch is the fake clock's start inside every synctest bubble.
var Epoch = time.Date(2000, 1, 1, 0, 0, 0, 0, time.UTC)

// Event is one entry of the run's global history.
type Event struct {
	Seq  int           `json:"seq"`
	T    time.Duration `json:"t"`
	Task string        `json:"task"`
	Kind string        `json:"kind"`
	Data string        `json:"data,omitempty"`

	end   string
	cnt   int
	bytes int
}

func (ev Event) String() string {
	return fmt.Sprintf("%5d %12s %-22s %-14s %s", ev.Seq, ev.T, ev.Task, ev.Kind, ev.Data)
}

// Task is a goroutine known to the scheduler.
type Task struct {
	gid      uint64
	id       int
	Name     string
	declared string
	harness  bool

	site     string
	cond     func() bool
	deadline time.Time
	timedOut bool
	parked   bool
	wake     chan struct{}
	prio     int
	done     bool
}

// action is something the scheduler can do instead of running a task
// (deliver bytes, deliver a FIN/RST).
type action struct {
	key string
	run func()
}

type item struct {
	t *Task
	a *action
}

func (it item) key() string {
	if it.t != nil {
		return "t:" + it.t.Name
	}
	return "n:" + it.a.key
}

type Engine struct {
	mu        sync.Mutex
	tasks     map[uint64]*Task
	all       []*Task
	declared  map[uint64]string
	wakeCh    chan struct{}
	schedGid  uint64
	aborting  atomic.Bool
	Tape      *Tape
	Log       []Event
	logHash   uint64
	schedHash uint64
	Steps     int
	MaxSteps  int
	Horizon   time.Duration
	current   string
	lastTask  *Task
	strat     Strategy
	// selectReverse: ready cases of the library's selects are tried in reverse textual order
	selectReverse bool
	changeAt      map[int]bool
	siteOrd       map[string]int
	nextID        int
	Net           *Network
	prioNext      int
	lowPrio       int
	netPrio       map[string]int

	driverDone bool
	Stuck      string // non-empty: the run could not finish (why)
	Panics     []PanicRec
	Faults     map[string]int
	Probes     map[string]int
	quiet      bool

	// Online invariant hooks, run on the scheduler between steps.
	Invariants []func() *Violation
	Violations []Violation
}

func NewEngine(tape *Tape) *Engine {
	e := &Engine{
		tasks:    map[uint64]*Task{},
		declared: map[uint64]string{},
		wakeCh:   make(chan struct{}, 1),
		Tape:     tape,
		MaxSteps: 1500000,
		Horizon:  24 * time.Hour,
		siteOrd:  map[string]int{},
		Faults:   map[string]int{},
		Probes:   map[string]int{},
		netPrio:  map[string]int{},
		logHash:  14695981039346656037,
	}
	e.Net = newNetwork(e)
	e.schedGid = curGoid()
	e.current = "sched"
	installHooks(e)
	return e
}

var traceSched = os.Getenv("VERIF_TRACE") != ""

func curGoid() uint64 {
	var buf [40]byte
	n := runtime.Stack(buf[:], false)
	// "goroutine 123 ["
	var id uint64
	for i := len("goroutine "); i < n; i++ {
		c := buf[i]
		if c < '0' || c > '9' {
			break
		}
		id = id*10 + uint64(c-'0')
	}
	return id
}

// Now returns simulated time since the epoch.
func (e *Engine) Now() time.Duration { return time.Since(Epoch) }

// Logf appends to the global history. Only the goroutine holding the run
// token (or the scheduler) may call it.
func (e *Engine) Logf(kind, format string, args ...interface{}) {
	data := format
	if len(args) > 0 {
		data = fmt.Sprintf(format, args...)
	}
	ev := Event{Seq: len(e.Log), T: e.Now(), Task: e.current, Kind: kind, Data: data}
	e.Log = append(e.Log, ev)
	h := e.logHash
	for _, s := range []string{ev.Task, ev.Kind, ev.Data} {
		for i := 0; i < len(s); i++ {
			h ^= uint64(s[i])
			h *= 1099511628211
		}
		h ^= 0xff
		h *= 1099511628211
	}
	h ^= uint64(ev.T)
	h *= 1099511628211
	e.logHash = h
}

// logDeliver records a delivery; consecutive deliveries to the same end are
// folded into one log entry (the digest still covers each of them).
func (e *Engine) logDeliver(end string, n int, total int64) {
	h := e.logHash
	for i := 0; i < len(end); i++ {
		h ^= uint64(end[i])
		h *= 1099511628211
	}
	h ^= uint64(n)
	h *= 1099511628211
	h ^= uint64(e.Now())
	h *= 1099511628211
	e.logHash = h
	if k := len(e.Log) - 1; k >= 0 && e.Log[k].Kind == "net.deliver" && e.Log[k].end == end {
		e.Log[k].cnt++
		e.Log[k].bytes += n
		e.Log[k].Data = fmt.Sprintf("%s %d bytes in %d deliveries (total %d)", end, e.Log[k].bytes, e.Log[k].cnt, total)
		return
	}
	e.Log = append(e.Log, Event{Seq: len(e.Log), T: e.Now(), Task: "net", Kind: "net.deliver", Data: fmt.Sprintf("%s %d bytes (total %d)", end, n, total), end: end, cnt: 1, bytes: n})
}

func (e *Engine) LogHash() uint64   { return e.logHash }
func (e *Engine) SchedHash() uint64 { return e.schedHash }

func (e *Engine) Fault(kind string) { e.Faults[kind]++ }
func (e *Engine) Probe(kind string) { e.Probes[kind]++ }

func (e *Engine) Violate(prop, class, format string, args ...interface{}) {
	v := Violation{Prop: prop, Class: class, Detail: fmt.Sprintf(format, args...)}
	e.Violations = append(e.Violations, v)
	// only the first line goes into the (hashed) history: details may carry
	// stack traces, whose goroutine numbers and addresses differ per process
	first := v.Detail
	if i := strings.IndexByte(first, '\n'); i >= 0 {
		first = first[:i]
	}
	// belt and braces: goroutine numbers and pointers never enter the hashed history
	first = volatileRE.ReplaceAllString(first, "#")
	e.Logf("VIOLATION", "%s %s: %s", prop, class, first)
}

var volatileRE = regexp.MustCompile(`goroutine \d+|0x[0-9a-f]{6,}`)

// ---------------------------------------------------------------------------
// park points

func (e *Engine) yield(site string) { e.park(site, nil, time.Time{}) }

func (e *Engine) yieldUntil(site string, cond func() bool) { e.park(site, cond, time.Time{}) }

func (e *Engine) park(site string, cond func() bool, deadline time.Time) bool {
	if e.aborting.Load() {
		runtime.Goexit()
	}
	gid := curGoid()
	if gid == e.schedGid {
		// oracles and set-up code running on the scheduler never park
		return false
	}
	e.mu.Lock()
	t := e.tasks[gid]
	if t == nil {
		t = &Task{gid: gid, wake: make(chan struct{}, 1)}
		if d, ok := e.declared[gid]; ok {
			t.declared = d
			t.harness = true
			delete(e.declared, gid)
		}
		e.tasks[gid] = t
		e.all = append(e.all, t)
	}
	t.site = site
	t.cond = cond
	t.deadline = deadline
	t.timedOut = false
	t.parked = true
	e.mu.Unlock()
	select {
	case e.wakeCh <- struct{}{}:
	default:
	}
	<-t.wake
	if e.aborting.Load() {
		runtime.Goexit()
	}
	return t.timedOut
}

// Yield is the explicit park point for harness goroutines.
func (e *Engine) Yield(site string) { e.park(site, nil, time.Time{}) }

// WaitUntil parks the calling harness task until cond holds.
func (e *Engine) WaitUntil(site string, cond func() bool) { e.park(site, cond, time.Time{}) }

// WaitUntilFor parks until cond holds or d of simulated time has passed;
// reports whether it timed out.
func (e *Engine) WaitUntilFor(site string, d time.Duration, cond func() bool) bool {
	return e.park(site, cond, time.Now().Add(d))
}

// Sleep advances simulated time for the calling harness task.
func (e *Engine) Sleep(d time.Duration) {
	e.park("sleep", func() bool { return false }, time.Now().Add(d))
}

// Go starts a harness goroutine with a unique name. There must be a park
// point between two calls (the caller yields here).
func (e *Engine) Go(name string, fn func()) {
	started := false
	go func() {
		e.mu.Lock()
		e.declared[curGoid()] = name
		e.mu.Unlock()
		started = true
		e.Yield("start:" + name)
		defer func() {
			if r := recover(); r != nil {
				buf := make([]byte, 16384)
				buf = buf[:runtime.Stack(buf, false)]
				e.recordPanic("harness:"+name, r, buf)
			}
			e.markDone()
		}()
		fn()
	}()
	e.WaitUntil("spawn:"+name, func() bool { return started })
}

func (e *Engine) markDone() {
	gid := curGoid()
	e.mu.Lock()
	if t := e.tasks[gid]; t != nil {
		t.done = true
	}
	e.mu.Unlock()
	// a task that ends without parking again must still wake an idle scheduler
	select {
	case e.wakeCh <- struct{}{}:
	default:
	}
}

func (e *Engine) recordPanic(where string, r interface{}, stack []byte) {
	pr := PanicRec{Where: where, Value: fmt.Sprint(r), Stack: string(stack)}
	e.Panics = append(e.Panics, pr)
	e.Logf("panic", "%s: %v", where, r)
}

// ---------------------------------------------------------------------------
// scheduler

func (e *Engine) nameNew() {
	var fresh []*Task
	for _, t := range e.all {
		if t.id == 0 && t.parked {
			fresh = append(fresh, t)
		}
	}
	if len(fresh) == 0 {
		return
	}
	sort.Slice(fresh, func(i, j int) bool {
		ki, kj := fresh[i].declared+"|"+fresh[i].site, fresh[j].declared+"|"+fresh[j].site
		return ki < kj
	})
	for i, t := range fresh {
		if i > 0 {
			p := fresh[i-1]
			if p.declared+"|"+p.site == t.declared+"|"+t.site {
				// two indistinguishable new goroutines in one step: the
				// order of their ordinals is not determined by the tape
				e.Probe("sched.ambiguous_spawn")
			}
		}
		e.nextID++
		t.id = e.nextID
		if t.declared != "" {
			t.Name = t.declared
		} else {
			e.siteOrd[t.site]++
			t.Name = fmt.Sprintf("%s#%d", t.site, e.siteOrd[t.site])
		}
		e.prioNext++
		t.prio = 0
	}
}

func (e *Engine) collect() []item {
	e.mu.Lock()
	defer e.mu.Unlock()
	e.nameNew()
	now := time.Now()
	var its []item
	for _, t := range e.all {
		if !t.parked {
			continue
		}
		if t.cond == nil || t.cond() {
			its = append(its, item{t: t})
		} else if !t.deadline.IsZero() && !now.Before(t.deadline) {
			its = append(its, item{t: t})
		}
	}
	sort.Slice(its, func(i, j int) bool { return its[i].t.id < its[j].t.id })
	for _, a := range e.Net.actions(now) {
		its = append(its, item{a: a})
	}
	return its
}

func (e *Engine) nextWake() time.Time {
	e.mu.Lock()
	defer e.mu.Unlock()
	var next time.Time
	upd := func(t time.Time) {
		if t.IsZero() {
			return
		}
		if next.IsZero() || t.Before(next) {
			next = t
		}
	}
	for _, t := range e.all {
		if t.parked && t.cond != nil {
			upd(t.deadline)
		}
	}
	upd(e.Net.nextDue())
	return next
}

func (e *Engine) initStrategy() {
	run := e.Tape.Run
	defer func() {
		if e.selectReverse = run.Choose("select-order", 3) == 2; e.selectReverse {
			e.Probe("sched.select_reverse_order")
		}
	}()
	switch run.Choose("strategy", 10) {
	case 0, 1, 2, 3:
		e.strat = Strategy{Kind: "sticky", PreemptPm: []int{0, 20, 100, 300}[run.Choose("preempt-rate", 4)]}
	case 4, 5:
		e.strat = Strategy{Kind: "uniform"}
	default:
		d := 1 + run.Choose("pct-depth", 3)
		hz := []int{200, 1000, 4000}[run.Choose("pct-horizon", 3)]
		e.strat = Strategy{Kind: "pct", PCTDepth: d, PCTHorizon: hz}
		e.changeAt = map[int]bool{}
		for i := 0; i < d; i++ {
			e.changeAt[run.Choose("pct-change", hz)] = true
		}
	}
}

// ForceStrategy lets a scenario pin the scheduling strategy (used by
// scenarios that need, e.g., PCT more often than the default mix).
func (e *Engine) StrategyInfo() Strategy { return e.strat }

func (e *Engine) pick(its []item) item {
	run := e.Tape.Run
	switch e.strat.Kind {
	case "uniform":
		return its[run.Choose("pick", len(its))]
	case "pct":
		// priorities are assigned on first sight; highest runs
		best := -1
		bestP := 0
		for i, it := range its {
			p := e.prioOf(it)
			if best < 0 || p > bestP {
				best, bestP = i, p
			}
		}
		if e.changeAt[e.Steps] {
			e.lowPrio--
			e.setPrio(its[best], e.lowPrio)
			e.Probe("sched.pct_change")
			return e.pick2(its)
		}
		return its[best]
	default: // sticky
		if e.lastTask != nil {
			for _, it := range its {
				if it.t == e.lastTask {
					if e.strat.PreemptPm == 0 || run.Choose("preempt", 1000) < 1000-e.strat.PreemptPm {
						return it
					}
					e.Probe("sched.preempt")
					break
				}
			}
		}
		return its[run.Choose("pick", len(its))]
	}
}

func (e *Engine) pick2(its []item) item {
	best := -1
	bestP := 0
	for i, it := range its {
		p := e.prioOf(it)
		if best < 0 || p > bestP {
			best, bestP = i, p
		}
	}
	return its[best]
}

func (e *Engine) prioOf(it item) int {
	if it.t != nil {
		if it.t.prio == 0 {
			it.t.prio = 1 + e.Tape.Run.Choose("prio", 1<<20)
		}
		return it.t.prio
	}
	// network actions: keyed by direction
	p, ok := e.netPrio[it.a.key]
	if !ok {
		p = 1 + e.Tape.Run.Choose("prio", 1<<20)
		e.netPrio[it.a.key] = p
	}
	return p
}

func (e *Engine) setPrio(it item, p int) {
	if it.t != nil {
		it.t.prio = p
	} else {
		e.netPrio[it.a.key] = p
	}
}

// Run executes driver as the scenario's main harness task under the
// scheduler and returns when it has finished (or the run is stuck). It must
// be called on the bubble's main goroutine.
func (e *Engine) Run(driver func()) {
	e.schedGid = curGoid()
	e.current = "sched"
	e.initStrategy()

	go func() {
		e.mu.Lock()
		e.declared[curGoid()] = "driver"
		e.mu.Unlock()
		e.Yield("start:driver")
		defer func() {
			if r := recover(); r != nil {
				buf := make([]byte, 16384)
				buf = buf[:runtime.Stack(buf, false)]
				e.recordPanic("harness:driver", r, buf)
			}
			e.driverDone = true
			e.markDone()
		}()
		driver()
	}()

	idleSpins := 0
	for {
		synctest.Wait()
		if e.driverDone {
			break
		}
		for _, inv := range e.Invariants {
			if v := inv(); v != nil {
				e.current = "sched"
				e.Violations = append(e.Violations, *v)
				e.Logf("VIOLATION", "%s %s: %s", v.Prop, v.Class, v.Detail)
			}
		}
		its := e.collect()
		if len(its) == 0 {
			if !e.idle() {
				idleSpins++
				if idleSpins > 0 {
					e.Stuck = "no runnable task, no timer and no network event before the horizon: " + e.describeParked()
					break
				}
			}
			continue
		}
		idleSpins = 0
		if e.Steps >= e.MaxSteps {
			e.Stuck = fmt.Sprintf("step budget of %d exhausted: %s", e.MaxSteps, e.describeParked())
			break
		}
		if e.Now() > e.Horizon {
			e.Stuck = "simulated-time horizon exceeded: " + e.describeParked()
			break
		}
		it := e.pick(its)
		e.Steps++
		if traceSched {
			var ks []string
			for _, x := range its {
				k := x.key()
				if x.t != nil {
					k += "@" + x.t.site
				}
				ks = append(ks, k)
			}
			fmt.Fprintf(os.Stderr, "STEP %d t=%v pick=%s of %v\n", e.Steps, e.Now(), it.key(), ks)
		}
		k := it.key()
		h := e.schedHash
		for i := 0; i < len(k); i++ {
			h ^= uint64(k[i])
			h *= 1099511628211
		}
		if it.t != nil {
			for i := 0; i < len(it.t.site); i++ {
				h ^= uint64(it.t.site[i])
				h *= 1099511628211
			}
		}
		e.schedHash = h + 1
		if it.t != nil {
			t := it.t
			e.mu.Lock()
			t.parked = false
			if t.cond != nil && !t.cond() {
				t.timedOut = true
			}
			t.cond = nil
			e.mu.Unlock()
			e.current = t.Name
			e.lastTask = t
			t.wake <- struct{}{}
		} else {
			e.current = "net"
			e.lastTask = nil
			it.a.run()
		}
	}
	synctest.Wait()
	e.current = "sched"
}

// idle lets simulated time advance. Returns false if nothing at all happened
// before the idle horizon.
func (e *Engine) idle() bool {
	next := e.nextWake()
	// With nothing of our own to wait for, sleep "forever": any library timer
	// that fires runs its goroutine up to the next park point, which pokes
	// wakeCh. Only if the whole bubble has nothing left does this timer fire.
	d := 100 * 365 * 24 * time.Hour
	if !next.IsZero() {
		d = time.Until(next)
	}
	if d <= 0 {
		return true
	}
	tm := time.NewTimer(d)
	defer tm.Stop()
	select {
	case <-e.wakeCh:
		return true
	case <-tm.C:
		return !next.IsZero()
	}
}

func (e *Engine) describeParked() string {
	e.mu.Lock()
	defer e.mu.Unlock()
	var s []string
	for _, t := range e.all {
		if t.parked {
			c := ""
			if t.cond != nil {
				c = " (waiting)"
			}
			s = append(s, t.Name+"@"+t.site+c)
		}
	}
	return strings.Join(s, ", ")
}

// ParkedTasks lists tasks currently parked with a condition that does not
// hold (blocked on a lock or a harness wait), for leak/hang oracles.
func (e *Engine) BlockedTasks() []string {
	e.mu.Lock()
	defer e.mu.Unlock()
	var s []string
	for _, t := range e.all {
		if t.parked && t.cond != nil && !t.cond() {
			s = append(s, t.Name+"@"+t.site)
		}
	}
	return s
}

// Abort flips every later park point into Goexit and releases everything
// that is parked, so that the bubble can end.
func (e *Engine) Abort() {
	e.aborting.Store(true)
	e.Net.closeAll()
	e.mu.Lock()
	for _, t := range e.all {
		if t.parked {
			t.parked = false
			select {
			case t.wake <- struct{}{}:
			default:
			}
		}
	}
	e.mu.Unlock()
}

// LiveTask describes a goroutine of this run that still exists.
type LiveTask struct {
	Name    string
	Harness bool
	Parked  bool
	Site    string
	Header  string
	Stack   string
}

// LiveTasks lists the goroutines of this run (every library goroutine and
// every harness task has passed a park point, so all are known) that still
// exist, by matching goroutine ids against a full stack dump. Call only
// while the system is quiescent.
func (e *Engine) LiveTasks() []LiveTask {
	buf := make([]byte, 4<<20)
	n := runtime.Stack(buf, true)
	live := map[uint64][2]string{}
	for _, g := range strings.Split(string(buf[:n]), "\n\n") {
		if !strings.HasPrefix(g, "goroutine ") {
			continue
		}
		var id uint64
		for i := len("goroutine "); i < len(g); i++ {
			c := g[i]
			if c < '0' || c > '9' {
				break
			}
			id = id*10 + uint64(c-'0')
		}
		hdr := g
		if k := strings.IndexByte(g, '\n'); k >= 0 {
			hdr = g[:k]
		}
		live[id] = [2]string{hdr, g}
	}
	if os.Getenv("VERIF_DEBUG_LIVE") != "" {
		fmt.Fprintf(os.Stderr, "DUMP(%d bytes):\n%s\n", n, buf[:n])
		for _, t := range e.all {
			fmt.Fprintf(os.Stderr, "TASK %s gid=%d\n", t.Name, t.gid)
		}
	}
	e.mu.Lock()
	defer e.mu.Unlock()
	var out []LiveTask
	for _, t := range e.all {
		if t.gid == e.schedGid {
			continue
		}
		if g, ok := live[t.gid]; ok {
			out = append(out, LiveTask{Name: t.Name, Harness: t.harness, Parked: t.parked, Site: t.site, Header: g[0], Stack: g[1]})
		}
	}
	return out
}
