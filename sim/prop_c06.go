package sim

import (
	"fmt"
	"io"
	"strings"
	"time"

	xmpp "gosrc.io/xmpp"
	"gosrc.io/xmpp/stanza"
)

// C06 — the router runs only the first matching route; unhandled IQ requests
// get exactly one feature-not-implemented error.

type c06Route struct {
	Name  string   `json:"name,omitempty"`
	Types []string `json:"types,omitempty"`
	NS    []string `json:"namespaces,omitempty"`
	// a route is the conjunction of its matchers, also of two of the same kind
	Types2 []string `json:"and_types,omitempty"`
	NS2    []string `json:"and_namespaces,omitempty"`
}

type c06Pkt struct {
	Raw     string `json:"raw"`
	Kind    string `json:"kind"` // message presence iq other
	ID      string `json:"id"`
	Type    string `json:"type"`
	Payload string `json:"payload_ns"` // namespace of a registered IQ payload, "" otherwise
	From    string `json:"from"`
	To      string `json:"to"`
}

type c06Scenario struct {
	Component bool       `json:"component"`
	Deferred  bool       `json:"routes_created_first_configured_later,omitempty"`
	Routes    []c06Route `json:"routes"`
	Packets   []c06Pkt   `json:"packets"`
	Seg       int        `json:"segmentation"`
	LatencyNs int64      `json:"latency_ns"`
	Dawdle    int        `json:"handler_dawdle"`
	Repeats   int        `json:"requests_received_twice,omitempty"`
	// client with stream management: at the very end an unmatched request arrives while the socket fails
	// the write of the automatic reply; the session is resumed; the requester gets its one error then
	ReplyWriteFails bool `json:"write_of_the_automatic_reply_fails_then_resumption,omitempty"`
}

const (
	nsVersion    = "jabber:iq:version"
	nsDiscoInfo  = "http://jabber.org/protocol/disco#info"
	nsDiscoItems = "http://jabber.org/protocol/disco#items"
	nsCommands   = "http://jabber.org/protocol/commands"
	nsPubSub     = "http://jabber.org/protocol/pubsub"
	nsRoster     = "jabber:iq:roster"
)

func init() {
	register(&PropDef{
		ID:    "C06",
		Rule:  "scenario = (route table of 0-6 routes, each a conjunction of name / type-list / IQ-namespace-list matchers or none, catch-all at any position) x (1-12 inbound packets: messages with and without type, presences, IQs of each type with registered / unknown / no payload, non-stanza packets) x (client or component, segmentation, handler slowness); non-trivial = at least one packet was received; distinct = distinct (scenario hash, schedule hash)",
		Real:  []string{"xmpp.Router (route, Match, matchers, iqNotImplemented)", "IQ.MakeError", "recv loops and per-packet route goroutines", "Send path of the automatic reply"},
		Stub:  []string{"TCP (simnet)", "XMPP server (scripted model; replies observed through the independent splitter)", "clock (synctest)", "goroutine scheduling (token scheduler)"},
		Run:   runC06,
		Reach: []string{"c06.ends_with_stream_error"},
	})
}

// refRoute is the reference router, written from the documented rules.
func refRoute(routes []c06Route, p c06Pkt) int {
	typeIn := func(p c06Pkt, list []string) bool {
		if p.Kind != "message" && p.Kind != "presence" && p.Kind != "iq" {
			return false
		}
		t := p.Type
		if p.Kind == "message" && t == "" {
			t = "normal"
		}
		for _, x := range list {
			if strings.ToLower(x) == t {
				return true
			}
		}
		return false
	}
	nsIn := func(p c06Pkt, list []string) bool {
		if p.Kind == "iq" && p.Payload != "" {
			for _, x := range list {
				if strings.EqualFold(x, p.Payload) {
					return true
				}
			}
		}
		return false
	}
	for i, r := range routes {
		ok := true
		if r.Name != "" && strings.ToLower(r.Name) != p.Kind {
			ok = false
		}
		if ok && r.Types != nil {
			ok = typeIn(p, r.Types)
		}
		if ok && r.Types2 != nil {
			ok = typeIn(p, r.Types2)
		}
		if ok && r.NS != nil {
			ok = nsIn(p, r.NS)
		}
		if ok && r.NS2 != nil {
			ok = nsIn(p, r.NS2)
		}
		if ok {
			return i
		}
	}
	return -1
}

func allEqual(xs []int, v int) bool {
	for _, x := range xs {
		if x != v {
			return false
		}
	}
	return true
}

func runC06(e *Engine, g G, o RunOpt) RunInfo {
	sc := &c06Scenario{}
	sc.Component = g.Pct("component", 30)
	// the API hands out *Route: an application may create its routes first and attach
	// matchers and handlers afterwards
	sc.Deferred = g.Pct("deferred-build", 25)
	nr := g.Range("nroutes", 0, 6)
	typePool := []string{"chat", "normal", "groupchat", "headline", "error", "get", "set", "result", "unavailable", "subscribe", "Chat", "GET"}
	nsPool := []string{nsVersion, nsDiscoInfo, nsDiscoItems, "urn:xmpp:ping", "x:y", nsCommands, nsPubSub, nsRoster, "urn:example:MyApp", "urn:example:diag"}
	for i := 0; i < nr; i++ {
		var r c06Route
		if g.Pct("catchall", 15) {
			sc.Routes = append(sc.Routes, r)
			continue
		}
		if g.Pct("hasname", 60) {
			r.Name = []string{"message", "presence", "iq", "Message", "IQ"}[g.N("name", 5)]
		}
		if g.Pct("hastypes", 50) {
			k := g.Range("ntypes", 1, 3)
			r.Types = []string{}
			for j := 0; j < k; j++ {
				r.Types = append(r.Types, typePool[g.N("type", len(typePool))])
			}
		}
		if g.Pct("hasns", 35) {
			k := g.Range("nns", 1, 2)
			r.NS = []string{}
			for j := 0; j < k; j++ {
				r.NS = append(r.NS, nsPool[g.N("ns", len(nsPool))])
			}
		}
		if r.Types != nil && g.Pct("second-type-list", 15) {
			r.Types2 = []string{typePool[g.N("type2", len(typePool))], r.Types[g.N("type2-shared", len(r.Types))]}
		}
		if r.NS != nil && g.Pct("second-ns-list", 15) {
			r.NS2 = []string{nsPool[g.N("ns2", len(nsPool))], r.NS[g.N("ns2-shared", len(r.NS))]}
		}
		sc.Routes = append(sc.Routes, r)
	}
	np := g.Range("npkts", 1, 12)
	me := "test@" + SimDomain + "/res"
	if sc.Component {
		me = "comp." + SimDomain
	}
	for i := 0; i < np; i++ {
		id := fmt.Sprintf("p%d", i+1)
		from := []string{"peer@" + SimDomain + "/x", SimDomain, ""}[g.Weighted("from", 5, 3, 1)]
		fa := ""
		if from != "" {
			fa = " from='" + from + "'"
		}
		var p c06Pkt
		switch g.Weighted("pk", 4, 2, 5, 1) {
		case 0:
			t := []string{"", "chat", "normal", "groupchat", "headline", "error"}[g.N("mt", 6)]
			ta := ""
			if t != "" {
				ta = " type='" + t + "'"
			}
			p = c06Pkt{Kind: "message", ID: id, Type: t, From: from, To: me, Raw: fmt.Sprintf("<message id='%s'%s to='%s'%s><body>b</body></message>", id, fa, me, ta)}
		case 1:
			t := []string{"", "unavailable", "subscribe", "error"}[g.N("pt", 4)]
			ta := ""
			if t != "" {
				ta = " type='" + t + "'"
			}
			p = c06Pkt{Kind: "presence", ID: id, Type: t, From: from, To: me, Raw: fmt.Sprintf("<presence id='%s'%s to='%s'%s/>", id, fa, me, ta)}
		case 2:
			t := []string{"get", "set", "result", "error"}[g.Weighted("it", 4, 3, 2, 1)]
			pl, ns := "", ""
			switch g.N("ipl", 11) {
			case 10:
				// a payload that is merely called like the stanza error element
				pl, ns = "<error xmlns='urn:example:diag'><detail/></error>", "urn:example:diag"
			case 9:
				// a namespace is any URI: this one has capitals, and the route configured with it is its route
				pl, ns = "<q xmlns='urn:example:MyApp'/>", "urn:example:MyApp"
			case 6:
				// payloads with a decoder of their own
				pl, ns = "<command xmlns='"+nsCommands+"' node='list' action='execute'/>", nsCommands
			case 7:
				pl, ns = "<pubsub xmlns='"+nsPubSub+"'><subscriptions/></pubsub>", nsPubSub
			case 8:
				pl, ns = "<query xmlns='"+nsRoster+"'><item jid='a@"+SimDomain+"'/></query>", nsRoster
			case 0:
				pl, ns = "<query xmlns='"+nsVersion+"'/>", nsVersion
			case 1:
				pl, ns = "<query xmlns='"+nsDiscoInfo+"'/>", nsDiscoInfo
			case 2:
				pl, ns = "<query xmlns='"+nsDiscoItems+"' node='n'/>", nsDiscoItems
			case 3:
				// (payloads the library has no type for are payloads all the same: the matcher is
				// documented as matching the namespace of the IQ payload)
				pl, ns = "<ping xmlns='urn:xmpp:ping'/>", "urn:xmpp:ping"
			case 4:
				pl, ns = "<z xmlns='x:y'><w/></z>", "x:y"
			}
			if t == "error" {
				pl += "<error type='cancel'><item-not-found xmlns='" + nsStanzas + "'/></error>"
			}
			p = c06Pkt{Kind: "iq", ID: id, Type: t, Payload: ns, From: from, To: me, Raw: fmt.Sprintf("<iq id='%s' type='%s'%s to='%s'>%s</iq>", id, t, fa, me, pl)}
		default:
			if g.Bool("otherk") {
				p = c06Pkt{Kind: "other", ID: id, Raw: fmt.Sprintf("<a xmlns='%s' h='%d'/>", nsSM, i)}
			} else {
				p = c06Pkt{Kind: "other", ID: id, Raw: "<stream:features><bind xmlns='" + nsBind + "'/></stream:features>"}
			}
		}
		sc.Packets = append(sc.Packets, p)
		if p.Kind == "iq" && g.Pct("same-request-again", 12) {
			// a peer that sends its request again, or reuses its ids: every one of them is a received
			// packet of its own (routed once, and answered once if nothing handles it)
			sc.Packets = append(sc.Packets, p)
			sc.Repeats++
		}
	}
	if g.Pct("ends-with-stream-error", 12) {
		// the last packet of a session: it is a received packet like any other
		sc.Packets = append(sc.Packets, c06Pkt{Kind: "other", ID: "se", Raw: "<stream:error><system-shutdown xmlns='" + nsStreams + "'/></stream:error>"})
	}
	sc.Seg, sc.LatencyNs = netModes(g, e)
	sc.Dawdle = g.N("dawdle", 3)
	rwf := c06Pkt{Kind: "iq", ID: "rwf", Type: "get", Payload: "urn:example:nobody-handles-this", From: "peer@" + SimDomain + "/x", To: me,
		Raw: fmt.Sprintf("<iq id='rwf' type='get' from='peer@%s/x' to='%s'><query xmlns='urn:example:nobody-handles-this'/></iq>", SimDomain, me)}
	endsWithErr := len(sc.Packets) > 0 && sc.Packets[len(sc.Packets)-1].ID == "se"
	sc.ReplyWriteFails = !sc.Component && !endsWithErr && refRoute(sc.Routes, rwf) < 0 && g.Pct("reply-write-fails", 40)
	if sc.ReplyWriteFails {
		// (no acknowledgements among the packets: they would make the client send held stanzas again)
		for i := range sc.Packets {
			if sc.Packets[i].Kind == "other" {
				sc.Packets[i].Raw = "<stream:features><bind xmlns='" + nsBind + "'/></stream:features>"
			}
		}
	}

	type hit struct {
		route int
		kind  string
		id    string
	}
	otherType := func(p c06Pkt) string {
		if strings.HasPrefix(p.Raw, "<a ") {
			return "stanza.SMAnswer"
		}
		if strings.HasPrefix(p.Raw, "<stream:error") {
			return "stanza.StreamError"
		}
		return "stanza.StreamFeatures"
	}
	var hits []hit
	established := false
	var conn *SrvConn
	var sess *Sess
	rwfChecked, rwfReplies := false, 0
	var estItems int
	build := func(r *xmpp.Router) {
		var created []*xmpp.Route
		if sc.Deferred {
			for range sc.Routes {
				created = append(created, r.NewRoute())
			}
		}
		for i, rt := range sc.Routes {
			i := i
			var route *xmpp.Route
			if sc.Deferred {
				route = created[i]
			} else {
				route = r.NewRoute()
			}
			if rt.Name != "" {
				route.Packet(rt.Name)
			}
			if rt.Types != nil {
				route.StanzaType(append([]string(nil), rt.Types...)...)
			}
			if rt.NS != nil {
				route.IQNamespaces(append([]string(nil), rt.NS...)...)
			}
			if rt.Types2 != nil {
				route.StanzaType(append([]string(nil), rt.Types2...)...)
			}
			if rt.NS2 != nil {
				route.IQNamespaces(append([]string(nil), rt.NS2...)...)
			}
			route.HandlerFunc(func(s xmpp.Sender, p stanza.Packet) {
				kind, id, _ := packetInfo(p)
				hits = append(hits, hit{route: i, kind: kind, id: id})
				e.Logf("cb.route", "route #%d got %s id=%s", i, kind, id)
				for k := 0; k < sc.Dawdle; k++ {
					e.Yield("handler.dawdle")
				}
			})
		}
	}
	e.Run(func() {
		if sc.Component {
			_, _, c, ok := StartComponent(e, "s3cr3t", DefaultNeg(), func(w *CompW, s *Server) { build(w.Router) })
			if !ok {
				return
			}
			conn = c
		} else {
			opts, script := DefaultClientOpts(), DefaultNeg()
			if sc.ReplyWriteFails {
				opts.SM, opts.SMResume, script.SM = true, true, true
			}
			s, ok := StartClient(e, opts, []NegScript{script, script}, func(w *CW, s *Server) { build(w.Router) })
			if !ok {
				return
			}
			conn = s.Conn
			sess = s
		}
		established = true
		estItems = len(conn.Recv)
		var all strings.Builder
		for _, p := range sc.Packets {
			all.WriteString(p.Raw)
		}
		conn.SendChunks(all.String(), 900)
		e.Sleep(30 * time.Second)
		if sc.ReplyWriteFails && sess != nil && conn.Enabled {
			cli := conn.Pipe.Cli
			cli.FailWriteAt = cli.Writes + 1
			conn.Send(rwf.Raw)
			e.Sleep(2 * time.Second)
			nd := countState(sess.W.Events, xmpp.StateDisconnected)
			cli.CutAt = conn.End.TotalWritten
			cli.CutErr = io.EOF
			if !e.WaitUntilFor("lost", time.Minute, func() bool { return countState(sess.W.Events, xmpp.StateDisconnected) > nd }) {
				e.Sleep(time.Second)
				sess.Srv.Scripts[1].ResumedH = clientStanzasOnSession(conn)
				if err, _ := e.Call("Resume", sess.W.Client.Resume); err == nil && len(sess.Srv.Conns) == 2 && sess.Srv.Conns[1].Established == "resumed" {
					e.Sleep(5 * time.Second)
					rwfChecked = true
					for _, r := range sess.Srv.Conns[1].Elements() {
						if el := r.Item.Elem; el.Local == "iq" && el.Attr("type") == "error" && el.Attr("id") == "rwf" {
							rwfReplies++
						}
					}
					e.Probe("c06.reply_write_failed_then_resumed")
				}
			}
		}
	})
	if rwfChecked && rwfReplies != 1 {
		e.Violate("C06", "auto-reply-count="+cnt(rwfReplies)+":after-resumption", "an unmatched IQ get arrived while the socket failed the write of the automatic reply; after the resumption of the session the server received %d error replies for it, expected exactly one", rwfReplies)
	}

	info := RunInfo{Scenario: sc, Nontrivial: established}
	if !established {
		e.Probe("precondition_failed")
		return info
	}
	if e.Stuck != "" {
		e.Violate("C06", "stuck", "%s", e.Stuck)
	}
	for _, p := range e.Panics {
		e.Violate("C06", "panic:"+panicSite(p), "%s: %s", p.Where, p.Value)
	}
	// handler invocations per packet
	perPkt := map[string][]int{}
	for _, h := range hits {
		if h.id != "" {
			perPkt[h.kind+"/"+h.id] = append(perPkt[h.kind+"/"+h.id], h.route)
		}
	}
	// replies seen by the server
	replies := map[string][]*Elem{}
	var otherWrites []string
	for _, r := range conn.Recv[estItems:] {
		if r.Item.Kind == ItemClose {
			// the peer has closed its stream: whatever a routing goroutine still writes is not part of it
			break
		}
		if r.Item.Kind != ItemElem {
			continue
		}
		el := r.Item.Elem
		if string(r.Item.Raw) == xmpp.InitialPresence {
			continue
		}
		if el.Local == "iq" && el.Attr("type") == "error" {
			replies[el.Attr("id")] = append(replies[el.Attr("id")], el)
			continue
		}
		otherWrites = append(otherWrites, el.Short())
	}
	if len(otherWrites) > 0 {
		e.Violate("C06", "unexpected-reply", "the router wrote %v although no handler sends anything", otherWrites)
	}
	expectReplies := 0
	endsWithError := len(sc.Packets) > 0 && sc.Packets[len(sc.Packets)-1].ID == "se"
	if endsWithError {
		e.Probe("c06.ends_with_stream_error")
	}
	wantOther := map[string]int{}
	gotOther := map[string]int{}
	for _, h := range hits {
		if h.kind != "message" && h.kind != "presence" && h.kind != "iq" {
			gotOther[fmt.Sprintf("%s->route#%d", h.kind, h.route)]++
		}
	}
	mult := map[string]int{}
	for _, p := range sc.Packets {
		mult[p.Kind+"/"+p.ID]++
	}
	if sc.Repeats > 0 {
		e.Probe("c06.same_request_again")
	}
	done := map[string]bool{}
	for _, p := range sc.Packets {
		if p.Kind != "other" {
			if done[p.Kind+"/"+p.ID] {
				continue
			}
			done[p.Kind+"/"+p.ID] = true
		}
		m := mult[p.Kind+"/"+p.ID]
		want := refRoute(sc.Routes, p)
		if p.Kind == "other" {
			// no id to attribute: compared as a multiset below
			if want >= 0 {
				wantOther[fmt.Sprintf("%s->route#%d", otherType(p), want)]++
			}
			continue
		}
		got := perPkt[p.Kind+"/"+p.ID]
		switch {
		case want >= 0 && len(got) == 0:
			e.Violate("C06", "matching-route-not-run", "packet %s matches route #%d (%+v) but no handler ran", p.Raw, want, sc.Routes[want])
		case want >= 0 && (len(got) != m || !allEqual(got, want)):
			e.Violate("C06", "wrong-route-run", "packet %s (received %d times) must run exactly route #%d each time, handlers run: %v", p.Raw, m, want, got)
		case want < 0 && len(got) > 0:
			e.Violate("C06", "handler-run-without-match", "packet %s matches no route, handlers run: %v", p.Raw, got)
		}
		rs := replies[p.ID]
		needReply := want < 0 && p.Kind == "iq" && (p.Type == "get" || p.Type == "set")
		if needReply && endsWithError && !sc.Component && len(rs) < m {
			// a client routes concurrently: the reply raced with the teardown that the server's
			// stream error starts, and the server would not read it any more
			continue
		}
		if needReply {
			expectReplies++
			if len(rs) != m {
				e.Violate("C06", "auto-reply-count="+cnt(len(rs))+map[bool]string{true: "-of-2", false: ""}[m > 1], "unmatched IQ %s %s (received %d times) must be answered with exactly one error each time, server received %d", p.Type, p.ID, m, len(rs))
				continue
			}
			el := rs[0]
			if el.Attr("to") != p.From || el.Attr("from") != p.To {
				e.Violate("C06", "auto-reply-addressing", "request from=%q to=%q answered with from=%q to=%q", p.From, p.To, el.Attr("from"), el.Attr("to"))
			}
			errEl := el.Child("", "error")
			if errEl == nil || errEl.Child("", "feature-not-implemented") == nil {
				e.Violate("C06", "auto-reply-condition", "error reply to %s lacks feature-not-implemented: %s", p.ID, clip(el.Raw, 300))
			}
		} else if len(rs) > 0 {
			e.Violate("C06", "reply-without-need", "packet %s (route %d) was answered with %d error replies", p.Raw, want, len(rs))
		}
	}
	for k, n := range wantOther {
		if gotOther[k] != n {
			e.Violate("C06", "non-stanza-packet-routing", "non-stanza packets: expected %v, handlers ran %v", wantOther, gotOther)
			break
		}
	}
	for k, n := range gotOther {
		if wantOther[k] != n {
			e.Violate("C06", "non-stanza-packet-routing", "non-stanza packets: expected %v, handlers ran %v", wantOther, gotOther)
			break
		}
	}
	if len(wantOther) > 0 {
		e.Probe("c06.non_stanza_routed")
	}
	if expectReplies > 0 {
		e.Probe("c06.auto_reply_expected")
	}
	if len(sc.Routes) >= 3 {
		e.Probe("c06.tables_with_3plus_routes")
	}
	return info
}
