package sim

import (
	"fmt"
	"io"
	"math/big"
	"sort"
	"time"

	xmpp "gosrc.io/xmpp"
)

// C19 — reconnection back-off delays are bounded and grow exponentially up to
// the cap. Decided on the fake clock: each wait() is a real time.Sleep of the
// library measured in simulated time, so thousands of waits (hours of delay,
// exponent overflow) cost microseconds.

type c19Op struct {
	Op string `json:"op"` // wait | reset | query | set-cap | copy
	N  int    `json:"n,omitempty"`
}

type c19Scenario struct {
	Huge     bool    `json:"beyond_what_a_duration_holds,omitempty"`
	Base     int     `json:"base_ms"`
	Factor   int     `json:"factor"`
	Cap      int     `json:"cap_ms"`
	NoJitter bool    `json:"no_jitter"`
	Defaults bool    `json:"defaults"`
	Ops      []c19Op `json:"ops"`
	Shared   int     `json:"tasks_sharing_one_object_with_own_counters,omitempty"`
}

func init() {
	register(&PropDef{
		ID:    "C19",
		Rule:  "scenario = (base, factor, cap, jitter on/off, op sequence over wait/reset/per-attempt query); non-trivial = at least one wait reached the cap or at least 3 consecutive waits; distinct = distinct scenario hash (the schedule has one task)",
		Real:  []string{"xmpp.backoff (duration, wait, durationForAttempt, reset) incl. its time.Sleep and math/rand jitter"},
		Stub:  []string{"clock (synctest fake clock)", "math/rand global source seeded per run"},
		Run:   runC19,
		Reach: []string{"c19.system_gaps_checked", "c19.reached_cap"},
	})
}

func refDelayMs(base, factor, cap int, n int) *big.Int {
	b := big.NewInt(int64(base))
	f := big.NewInt(int64(factor))
	c := big.NewInt(int64(cap))
	if factor == 1 {
		if b.Cmp(c) > 0 {
			return c
		}
		return b
	}
	// base*factor^n, stopping as soon as the cap is exceeded
	v := new(big.Int).Set(b)
	for i := 0; i < n; i++ {
		if v.Cmp(c) >= 0 {
			return c
		}
		v.Mul(v, f)
	}
	if v.Cmp(c) > 0 {
		return c
	}
	return v
}

// c19System: the delays as an application sees them: gaps between refused
// reconnection attempts of a StreamManager, over several reconnection loops.
type c19System struct {
	Loops []int    `json:"refusals_per_loop"`
	Kinds []string `json:"loss_kind_per_loop"`
}

func runC19System(e *Engine, g G, o RunOpt) RunInfo {
	sc := &c19System{}
	nl := g.Range("loops", 1, 3)
	for i := 0; i < nl; i++ {
		sc.Loops = append(sc.Loops, g.Range("refusals", 1, 18))
		sc.Kinds = append(sc.Kinds, []string{"cut", "cut", "stream-error"}[g.N("loss-kind", 3)])
	}
	e.Horizon = 1 << 62
	var plan []Dial
	plan = append(plan, DialAccept)
	for _, m := range sc.Loops {
		for i := 0; i < m; i++ {
			plan = append(plan, DialRefuse)
		}
		plan = append(plan, DialAccept)
	}
	e.Net.DialPlan = func(n int) Dial {
		if n < len(plan) {
			return plan[n]
		}
		return DialAccept
	}
	up := false
	e.Run(func() {
		srv := NewServer(e, SimDomain)
		srv.Scripts = []NegScript{DefaultNeg()}
		w := NewCW(e, DefaultClientOpts(), sharedCerts())
		w.CatchAll()
		if err := w.Create(); err != nil {
			return
		}
		sm := xmpp.NewStreamManager(w.Client, nil)
		e.Go("sm.Run", func() { sm.Run() })
		nEst := func() int {
			n := 0
			for _, c := range srv.Conns {
				if c.Established != "" {
					n++
				}
			}
			return n
		}
		if e.WaitUntilFor("first", time.Minute, func() bool { return nEst() == 1 }) {
			return
		}
		up = true
		for li := range sc.Loops {
			e.Sleep(time.Second)
			cur := srv.Conns[len(srv.Conns)-1]
			if sc.Kinds[li] == "stream-error" {
				// the server ends the stream itself: the series of attempts that follows is a new one too
				cur.Send("<stream:error><system-shutdown xmlns='" + nsStreams + "'/></stream:error></stream:stream>")
				e.Yield("srv.closing")
				cur.Close()
				e.Fault("stream.error")
			} else {
				cur.Pipe.Cli.CutAt = cur.End.TotalWritten
				cur.Pipe.Cli.CutErr = io.EOF
			}
			if e.WaitUntilFor("back", 2*time.Hour, func() bool { return nEst() == li+2 }) {
				e.Violate("C19", "system:not-reconnected", "loop %d: no session after %d refusals within 2 h", li, sc.Loops[li])
				break
			}
		}
		e.Call("Stop", func() error { sm.Stop(); return nil })
		e.Sleep(time.Minute)
	})
	info := RunInfo{Scenario: sc, Nontrivial: up}
	for _, p := range e.Panics {
		e.Violate("C19", "system:panic:"+panicSite(p), "%s: %s\n%s", p.Where, p.Value, clip(p.Stack, 2500))
	}
	if !up {
		e.Probe("precondition_failed")
		return info
	}
	// dial #0 is the first connection; then per loop: m refusals and one accept
	d := e.Net.DialLog
	idx := 1
	for li, m := range sc.Loops {
		for n := 0; n < m; n++ {
			if idx+1 >= len(d) {
				break
			}
			gap := d[idx+1].At - d[idx].At
			ref := time.Duration(refDelayMs(20, 2, 180000, n).Int64()) * time.Millisecond
			if gap < 0 || gap > ref+time.Millisecond {
				e.Violate("C19", "system:gap-above-exponential", "reconnection loop %d: the wait after the %s consecutive refusal was %v, min(cap, base*factor^n) = %v", li, ordinal(n+1), gap, ref)
				return info
			}
			idx++
		}
		idx++ // the accepted attempt
	}
	e.Probe("c19.system_gaps_checked")
	return info
}

func ordinal(n int) string {
	switch n {
	case 1:
		return "1st"
	case 2:
		return "2nd"
	case 3:
		return "3rd"
	}
	return fmt.Sprintf("%dth", n)
}

func runC19(e *Engine, g G, o RunOpt) RunInfo {
	if g.Pct("in-system", 12) {
		return runC19System(e, g, o)
	}
	sc := &c19Scenario{}
	sc.Defaults = g.Pct("defaults", 25)
	if sc.Defaults {
		sc.Base, sc.Factor, sc.Cap = 0, 0, 0
	} else {
		switch g.N("basek", 3) {
		case 0:
			sc.Base = g.Range("base", 1, 50)
		case 1:
			sc.Base = g.Range("base", 51, 100000)
		default:
			sc.Base = 1 << uint(g.Range("baseexp", 10, 40))
		}
		sc.Factor = []int{2, 1, 3, 10, 1000, 1 << 20}[g.N("factor", 6)]
		switch g.N("capk", 3) {
		case 0:
			sc.Cap = g.Range("cap", 1, 200000)
		case 1:
			sc.Cap = sc.Base * (1 + g.N("capmul", 1000))
		default:
			sc.Cap = 1 << uint(g.Range("capexp", 5, 40))
		}
	}
	sc.NoJitter = g.Bool("nojitter")
	// "every positive base, factor and cap": also values whose delay no time.Duration can hold
	// (more than about 292 years, 2^63 ns). Only the per-attempt query is used with them - no
	// clock can wait that long - and only the bounds are asserted.
	sc.Huge = !sc.Defaults && g.Pct("huge", 6)
	if g.Pct("shared", 25) {
		sc.Shared = g.Range("shared-tasks", 2, 3)
	}
	if sc.Huge {
		big1 := []int{1 << 44, 1 << 53, 1 << 62, 1<<63 - 1, 9223372036854, 9223372036855}
		sc.Cap = big1[g.N("hugecap", len(big1))]
		if g.Bool("hugebase") {
			sc.Base = big1[g.N("hugebaseval", len(big1))]
		}
	}
	nops := g.Range("nops", 1, 40)
	if g.Pct("long", 10) {
		nops = g.Range("nopslong", 200, 2000)
	}
	for i := 0; i < nops; i++ {
		switch g.Weighted("op", 80, 5, 15, 2, 1) {
		case 0:
			sc.Ops = append(sc.Ops, c19Op{Op: "wait"})
		case 1:
			sc.Ops = append(sc.Ops, c19Op{Op: "reset"})
		case 3:
			// the settings are plain fields: an object in use may be given another cap ...
			sc.Ops = append(sc.Ops, c19Op{Op: "set-cap", N: []int{100, 500, 1000, 5000, 60000, 300000, 86400000}[g.N("newcap", 7)]})
		case 4:
			// ... or be copied
			sc.Ops = append(sc.Ops, c19Op{Op: "copy"})
		default:
			n := 0
			switch g.N("qk", 3) {
			case 0:
				n = g.Range("qn", 0, 20)
			case 1:
				n = g.Range("qn", 21, 5000)
			default:
				n = 1 << uint(g.Range("qexp", 13, 40))
			}
			sc.Ops = append(sc.Ops, c19Op{Op: "query", N: n})
		}
	}
	if sc.Huge {
		for i := range sc.Ops {
			if sc.Ops[i].Op == "wait" {
				sc.Ops[i] = c19Op{Op: "query", N: (i * 7) % 130}
			}
		}
	}
	// keep the total simulated time well within what time.Time and
	// time.Duration can hold (the statement's "every cap" is sampled up to
	// 2^36 ms = 2.2 years; beyond 2^43 ms time.Duration itself overflows)
	if !sc.Huge && sc.Cap > 1<<36 {
		sc.Cap = 1 << 36
	}
	if !sc.Huge && nops > 40 && sc.Cap > 1<<30 {
		sc.Cap = 1 << 30
	}
	e.Horizon = 1 << 62
	effBase, effFactor, effCap := sc.Base, sc.Factor, sc.Cap
	if effBase == 0 {
		effBase = 20
	}
	if effFactor == 0 {
		effFactor = 2
	}
	if effCap == 0 {
		effCap = 180000
	}
	maxConsec := 0
	reachedCap := false
	e.Run(func() {
		b := xmpp.NewVerifBackoff(sc.NoJitter, sc.Base, sc.Factor, sc.Cap)
		attempt := 0
		queried := map[int]time.Duration{}
		prev := time.Duration(-1)
		for i, op := range sc.Ops {
			switch op.Op {
			case "reset":
				b.Reset()
				attempt = 0
				prev = -1
			case "set-cap":
				if sc.Huge {
					continue
				}
				b.SetCap(op.N)
				effCap = op.N
				// (a lower cap may lower the delays: the comparisons start afresh)
				prev = -1
				queried = map[int]time.Duration{}
				e.Probe("c19.cap_changed_on_a_used_object")
			case "copy":
				b = b.Copy()
			case "wait", "query":
				n := attempt
				var d time.Duration
				if op.Op == "wait" {
					t0 := time.Now()
					b.Wait()
					d = time.Since(t0)
					attempt++
					if attempt > maxConsec {
						maxConsec = attempt
					}
				} else {
					n = op.N
					d = b.DurationForAttempt(op.N)
				}
				ref := refDelayMs(effBase, effFactor, effCap, n)
				refD, refFits := msDuration(ref)
				if ref.Cmp(big.NewInt(int64(effCap))) == 0 {
					reachedCap = true
				}
				capD, _ := msDuration(big.NewInt(int64(effCap)))
				e.Logf("backoff", "op#%d %s n=%d -> %v (reference %v)", i, op.Op, n, d, refD)
				switch {
				case d < 0:
					e.Violate("C19", "negative-delay:"+op.Op, "attempt %d: delay %v is negative", n, d)
				case d > capD:
					e.Violate("C19", "above-cap:"+op.Op, "attempt %d: delay %v exceeds the cap %v", n, d, capD)
				case sc.NoJitter && refFits && d != refD:
					e.Violate("C19", "not-min-cap-exp:"+op.Op, "attempt %d without jitter: delay %v, min(cap, base*factor^n) = %v (base %d factor %d cap %d)", n, d, refD, effBase, effFactor, effCap)
				case !sc.NoJitter && d > refD:
					e.Violate("C19", "jitter-above-exp:"+op.Op, "attempt %d with jitter: delay %v above min(cap, base*factor^n) = %v", n, d, refD)
				}
				if op.Op == "query" && sc.NoJitter {
					// "... and is therefore non-decreasing in n": also where the value itself can no
					// longer be represented and only saturation is possible
					qns := make([]int, 0, len(queried))
					for qn := range queried {
						qns = append(qns, qn)
					}
					sort.Ints(qns)
					for _, qn := range qns {
						qd := queried[qn]
						if (qn < n && qd > d) || (qn > n && qd < d) {
							e.Violate("C19", "not-monotone:query", "without jitter: attempt %d -> %v but attempt %d -> %v (base %d factor %d cap %d)", qn, qd, n, d, effBase, effFactor, effCap)
							break
						}
					}
					queried[n] = d
				}
				if op.Op == "wait" && sc.NoJitter {
					if prev >= 0 && d < prev {
						e.Violate("C19", "decreasing", "attempt %d: delay %v after %v", n, d, prev)
					}
					prev = d
				}
			}
			if i%16 == 15 {
				e.Yield("c19.step")
			}
		}
		if sc.Shared > 0 && !sc.Huge {
			// "The functions for Backoff are not threadsafe, but you can keep the attempt counter on your
			// end and use durationForAttempt(int)" (backoff.go): several tasks share one configured object
			// and query it with counters of their own; every answer obeys the statement whatever the interleaving.
			sb := xmpp.NewVerifBackoff(sc.NoJitter, effBase, effFactor, effCap)
			done := 0
			for t := 0; t < sc.Shared; t++ {
				t := t
				e.Go(fmt.Sprintf("shared-backoff-user%d", t), func() {
					defer func() { done++ }()
					for k := 0; k < 6; k++ {
						n := []int{0, 1, 3, 9, 14, 40, 70, 5000}[(t*3+k*5)%8]
						d := sb.DurationForAttempt(n)
						e.Yield("c19.shared.result")
						ref := refDelayMs(effBase, effFactor, effCap, n)
						refD, refFits := msDuration(ref)
						capD, _ := msDuration(big.NewInt(int64(effCap)))
						switch {
						case d < 0:
							e.Violate("C19", "negative-delay:shared-query", "attempt %d: delay %v is negative", n, d)
						case d > capD:
							e.Violate("C19", "above-cap:shared-query", "attempt %d: delay %v exceeds the cap %v", n, d, capD)
						case sc.NoJitter && refFits && d != refD:
							e.Violate("C19", "not-min-cap-exp:shared-query", "attempt %d without jitter, object shared by %d tasks that keep their own counters: delay %v, min(cap, base*factor^n) = %v (base %d factor %d cap %d)", n, sc.Shared, d, refD, effBase, effFactor, effCap)
						case !sc.NoJitter && d > refD:
							e.Violate("C19", "jitter-above-exp:shared-query", "attempt %d with jitter, object shared by %d tasks: delay %v above min(cap, base*factor^n) = %v", n, sc.Shared, d, refD)
						}
					}
				})
			}
			e.WaitUntilFor("shared-backoff-users", time.Hour, func() bool { return done == sc.Shared })
			e.Probe("c19.object_shared_by_tasks_with_own_counters")
		}
	})
	for _, p := range e.Panics {
		e.Violate("C19", "panic", "%s: %s", p.Where, p.Value)
	}
	if e.Stuck != "" {
		e.Violate("C19", "stuck", "%s", e.Stuck)
	}
	if reachedCap {
		e.Probe("c19.reached_cap")
	}
	if maxConsec > 60 {
		e.Probe("c19.exponent_overflow_range")
	}
	_ = fmt.Sprint
	return RunInfo{Scenario: sc, Nontrivial: reachedCap || maxConsec >= 3 || sc.Huge}
}

// msDuration converts a number of milliseconds to a time.Duration, saturating at the largest
// one when it does not fit (fits = false).
func msDuration(ms *big.Int) (time.Duration, bool) {
	ns := new(big.Int).Mul(ms, big.NewInt(int64(time.Millisecond)))
	if ns.IsInt64() {
		return time.Duration(ns.Int64()), true
	}
	return time.Duration(1<<63 - 1), false
}
