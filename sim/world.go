package sim

import (
	"crypto/tls"
	"fmt"
	"runtime"
	"time"

	xmpp "gosrc.io/xmpp"
	"gosrc.io/xmpp/stanza"
)

const SimDomain = "sim.example"
const SimAddr = "sim.example:5222"

// ClientOpts is the client configuration drawn by a scenario.
type ClientOpts struct {
	Insecure        bool   `json:"insecure"`
	TLS             int    `json:"tls_config"` // 0 nil, 1 RootCAs=fixture CA, 2 InsecureSkipVerify
	ServerName      string `json:"server_name,omitempty"`
	SM              bool   `json:"stream_management"`
	SMResume        bool   `json:"sm_resume_flag"`
	Resource        string `json:"resource,omitempty"`
	OAuth           bool   `json:"oauth,omitempty"`
	User            string `json:"user"`
	Secret          string `json:"secret"`
	KeepaliveNs     int64  `json:"keepalive_ns"`
	ConnectTimeout  int    `json:"connect_timeout_s"`
	TLSSessionCache bool   `json:"tls_client_session_cache,omitempty"` // the application's tls.Config resumes TLS sessions
	Logger          int    `json:"logger"`                             // 0 none, 1 recording, 2 failing
	WebSocket       bool   `json:"websocket,omitempty"`
	StreamDomain    string `json:"stream_domain,omitempty"`   // TransportConfiguration.Domain set explicitly (a hosted domain: the stream is opened to it, the JID keeps its own)
	TLSMax12        bool   `json:"tls_1_2_at_most,omitempty"` // the application's TLS config does not go beyond TLS 1.2
	Address         string `json:"address,omitempty"`         // overrides the default address of the chosen transport
}

const (
	TLSCfgNil = iota
	TLSCfgRoots
	TLSCfgSkipVerify
)

func addrFor(o ClientOpts) string {
	if o.Address != "" {
		return o.Address
	}
	if o.WebSocket {
		return SimWSAddr
	}
	return SimAddr
}

func DefaultClientOpts() ClientOpts {
	return ClientOpts{Insecure: true, User: "test", Secret: "secret", Resource: "res", KeepaliveNs: int64(30*time.Second) + 1, ConnectTimeout: 15}
}

type Handled struct {
	Seq  int
	At   time.Duration
	Kind string // message / presence / iq / other type name
	ID   string
	Type string
	From string
	Task string
}

type ErrRec struct {
	Seq int
	At  time.Duration
	Err string
}

type EvRec struct {
	Seq     int
	At      time.Duration
	State   xmpp.ConnState
	SMId    string
	Inbound uint
	Desc    string
	Task    string
}

// CW is the client world: a real xmpp.Client wired to the simulated network.
type CW struct {
	e       *Engine
	Opts    ClientOpts
	Cfg     *xmpp.Config
	Router  *xmpp.Router
	Client  *xmpp.Client
	Certs   *CertSet
	Handled []Handled
	Errors  []ErrRec
	Events  []EvRec
	// Dawdle makes the catch-all handler yield a few times before returning.
	Dawdle int
	// OnPacket is called by the catch-all handler (on a library goroutine).
	OnPacket func(s xmpp.Sender, p stanza.Packet)
	// OnEvent is chained after recording (e.g. a StreamManager's handler).
	LogW *LogWriter
}

func packetFrom(p stanza.Packet) string {
	switch v := p.(type) {
	case stanza.Message:
		return v.From
	case stanza.Presence:
		return v.From
	case *stanza.IQ:
		return v.From
	}
	return ""
}

func packetInfo(p stanza.Packet) (kind, id, typ string) {
	switch v := p.(type) {
	case stanza.Message:
		return "message", v.Id, string(v.Type)
	case *stanza.Message:
		return "message", v.Id, string(v.Type)
	case stanza.Presence:
		return "presence", v.Id, string(v.Type)
	case *stanza.Presence:
		return "presence", v.Id, string(v.Type)
	case *stanza.IQ:
		return "iq", v.Id, string(v.Type)
	default:
		return fmt.Sprintf("%T", p), "", ""
	}
}

func NewCW(e *Engine, o ClientOpts, certs *CertSet) *CW {
	w := &CW{e: e, Opts: o, Certs: certs}
	cfg := &xmpp.Config{
		TransportConfiguration: xmpp.TransportConfiguration{Address: addrFor(o)},
		Jid:                    o.User + "@" + SimDomain,
		Insecure:               o.Insecure,
		KeepaliveInterval:      time.Duration(o.KeepaliveNs),
		ConnectTimeout:         o.ConnectTimeout,
		StreamManagementEnable: o.SM,
	}
	if o.Resource != "" {
		cfg.Jid += "/" + o.Resource
	}
	if o.OAuth {
		cfg.Credential = xmpp.OAuthToken(o.Secret)
	} else {
		cfg.Credential = xmpp.Password(o.Secret)
	}
	switch o.TLS {
	case TLSCfgRoots:
		cfg.TLSConfig = &tls.Config{RootCAs: certs.Roots(), Rand: SeededRand(e.Tape.Seed, 'c'), ServerName: o.ServerName, MinVersion: tls.VersionTLS12}
	case TLSCfgSkipVerify:
		cfg.TLSConfig = &tls.Config{InsecureSkipVerify: true, Rand: SeededRand(e.Tape.Seed, 'c'), ServerName: o.ServerName, MinVersion: tls.VersionTLS12}
	}
	if o.StreamDomain != "" {
		cfg.TransportConfiguration.Domain = o.StreamDomain
	}
	if o.TLSSessionCache && cfg.TLSConfig != nil {
		cfg.TLSConfig.ClientSessionCache = tls.NewLRUClientSessionCache(4)
	}
	if o.TLSMax12 && cfg.TLSConfig != nil {
		cfg.TLSConfig.MaxVersion = tls.VersionTLS12
	}
	xmpp.VerifSetSMResume(cfg, o.SMResume)
	w.Cfg = cfg
	w.Router = xmpp.NewRouter()
	return w
}

// CatchAll installs a route without matchers that records every packet.
// CatchAll registers the routes of a typical application - a handler for two IQ namespaces, one
// for chat messages - in front of a route that takes everything else; all of them record what they
// get, so "some handler ran exactly once" is observed through the real matchers.
func (w *CW) CatchAll() {
	h := func(s xmpp.Sender, p stanza.Packet) {
		w.recordPacket(s, p)
	}
	w.Router.NewRoute().IQNamespaces("jabber:iq:version", "http://jabber.org/protocol/disco#info").HandlerFunc(h)
	w.Router.NewRoute().Packet("message").StanzaType("chat").HandlerFunc(h)
	w.Router.NewRoute().HandlerFunc(h)
}

func (w *CW) recordPacket(s xmpp.Sender, p stanza.Packet) {
	kind, id, typ := packetInfo(p)
	w.Handled = append(w.Handled, Handled{Seq: len(w.e.Log), At: w.e.Now(), Kind: kind, ID: id, Type: typ, From: packetFrom(p), Task: w.e.current})
	w.e.Logf("cb.handler", "%s id=%s type=%s from=%s", kind, id, typ, packetFrom(p))
	for i := 0; i < w.Dawdle; i++ {
		w.e.Yield("handler.dawdle")
	}
	if w.OnPacket != nil {
		w.OnPacket(s, p)
	}
}

// Create builds the client (NewClient) on the calling task.
func (w *CW) Create() error {
	c, err := xmpp.NewClient(w.Cfg, w.Router, func(err error) {
		w.Errors = append(w.Errors, ErrRec{Seq: len(w.e.Log), At: w.e.Now(), Err: err.Error()})
		w.e.Logf("cb.error", "%v", err)
	})
	if err != nil {
		return err
	}
	w.Client = c
	switch w.Opts.Logger {
	case 1:
		w.LogW = &LogWriter{e: w.e}
		xmpp.VerifClientLogTraffic(c, w.LogW)
	case 2:
		w.LogW = &LogWriter{e: w.e, FailEvery: 3}
		xmpp.VerifClientLogTraffic(c, w.LogW)
	}
	c.SetHandler(w.EventRecorder(nil))
	return nil
}

// EventRecorder returns an EventHandler that records and then chains.
func (w *CW) EventRecorder(next xmpp.EventHandler) xmpp.EventHandler {
	return func(ev xmpp.Event) error {
		st := xmpp.VerifEventState(ev)
		w.Events = append(w.Events, EvRec{Seq: len(w.e.Log), At: w.e.Now(), State: st, SMId: ev.SMState.Id, Inbound: ev.SMState.Inbound, Desc: ev.Description + ev.StreamError, Task: w.e.current})
		w.e.Logf("cb.event", "state=%s smid=%q inbound=%d %s", StateName(st), ev.SMState.Id, ev.SMState.Inbound, ev.StreamError)
		if next != nil {
			return next(ev)
		}
		return nil
	}
}

func StateName(s xmpp.ConnState) string {
	switch s {
	case xmpp.StateDisconnected:
		return "Disconnected"
	case xmpp.StateResuming:
		return "Resuming"
	case xmpp.StateSessionEstablished:
		return "SessionEstablished"
	case xmpp.StateStreamError:
		return "StreamError"
	case xmpp.StatePermanentError:
		return "PermanentError"
	}
	return fmt.Sprintf("state(%d)", s)
}

// Call runs fn (an API call) on the calling task, logging invocation and
// return and converting a panic into a recorded event.
func (e *Engine) Call(name string, fn func() error) (err error, panicked bool) {
	e.Logf("api.call", "%s", name)
	defer func() {
		if r := recover(); r != nil {
			buf := make([]byte, 16384)
			buf = buf[:runtime.Stack(buf, false)]
			e.recordPanic("API call "+name, r, buf)
			panicked = true
			err = fmt.Errorf("panic: %v", r)
		}
	}()
	err = fn()
	e.Yield("api.ret")
	if err != nil {
		e.Logf("api.ret", "%s error: %s", name, clip(err.Error(), 200))
	} else {
		e.Logf("api.ret", "%s ok", name)
	}
	return err, false
}

// LogWriter is the in-memory "log file" with injectable failures.
type LogWriter struct {
	e         *Engine
	Data      []byte
	Writes    int
	FailEvery int // every n-th write fails (short write + error)
	Fails     int
}

func (l *LogWriter) Write(p []byte) (int, error) {
	l.Writes++
	if l.FailEvery > 0 && l.Writes%l.FailEvery == 0 {
		l.Fails++
		l.e.Fault("log.write_error")
		n := len(p) / 2
		l.Data = append(l.Data, p[:n]...)
		return n, fmt.Errorf("simulated log device error")
	}
	l.Data = append(l.Data, p...)
	return len(p), nil
}
