package sim

import (
	"bytes"
	"encoding/xml"
	"errors"
	"fmt"
	"io"
	"sort"
	"strings"
)

// Independent observation of XML byte streams. The harness never uses the
// library's parser (stanza.NextPacket and the UnmarshalXML methods) to decide
// what was on the wire: top-level elements are cut out of the byte stream by
// the hand-written scanner below and turned into a small DOM with
// encoding/xml's RawToken plus our own namespace resolution.

const (
	nsStream    = "http://etherx.jabber.org/streams"
	nsClient    = "jabber:client"
	nsComponent = "jabber:component:accept"
	nsTLS       = "urn:ietf:params:xml:ns:xmpp-tls"
	nsSASL      = "urn:ietf:params:xml:ns:xmpp-sasl"
	nsBind      = "urn:ietf:params:xml:ns:xmpp-bind"
	nsSession   = "urn:ietf:params:xml:ns:xmpp-session"
	nsSM        = "urn:xmpp:sm:3"
	nsFraming   = "urn:ietf:params:xml:ns:xmpp-framing"
	nsStanzas   = "urn:ietf:params:xml:ns:xmpp-stanzas"
	nsStreams   = "urn:ietf:params:xml:ns:xmpp-streams"
)

type Attr struct {
	Space, Local, Value string
}

type Elem struct {
	Space    string
	Local    string
	Attrs    []Attr
	Text     string
	Children []*Elem
	Raw      string
}

func (e *Elem) Attr(local string) string {
	for _, a := range e.Attrs {
		if a.Local == local && a.Space == "" {
			return a.Value
		}
	}
	return ""
}

func (e *Elem) HasAttr(local string) bool {
	for _, a := range e.Attrs {
		if a.Local == local && a.Space == "" {
			return true
		}
	}
	return false
}

func (e *Elem) Child(space, local string) *Elem {
	for _, c := range e.Children {
		if c.Local == local && (space == "" || c.Space == space) {
			return c
		}
	}
	return nil
}

func (e *Elem) Is(space, local string) bool { return e != nil && e.Space == space && e.Local == local }

// Canon renders the element in a canonical form (resolved namespaces, sorted
// attributes) for comparisons that must not depend on prefixes or quoting.
func (e *Elem) Canon() string {
	var b strings.Builder
	e.canon(&b)
	return b.String()
}

func (e *Elem) canon(b *strings.Builder) {
	fmt.Fprintf(b, "<{%s}%s", e.Space, e.Local)
	as := append([]Attr(nil), e.Attrs...)
	sort.Slice(as, func(i, j int) bool {
		if as[i].Space != as[j].Space {
			return as[i].Space < as[j].Space
		}
		return as[i].Local < as[j].Local
	})
	for _, a := range as {
		fmt.Fprintf(b, " {%s}%s=%q", a.Space, a.Local, a.Value)
	}
	b.WriteString(">")
	if e.Text != "" {
		fmt.Fprintf(b, "%q", e.Text)
	}
	for _, c := range e.Children {
		c.canon(b)
	}
	b.WriteString("</>")
}

func (e *Elem) Short() string {
	s := "<" + e.Local
	if id := e.Attr("id"); id != "" {
		s += " id=" + id
	}
	if t := e.Attr("type"); t != "" {
		s += " type=" + t
	}
	if e.Space == nsSM || e.Space == nsSASL || e.Space == nsTLS {
		for _, a := range e.Attrs {
			if a.Local != "id" && a.Local != "type" {
				s += " " + a.Local + "=" + a.Value
			}
		}
	}
	for _, c := range e.Children {
		s += " <" + c.Local + ">"
	}
	return s + ">"
}

// nsCtx is a namespace binding stack.
type nsCtx []map[string]string

func (c nsCtx) lookup(prefix string) (string, bool) {
	for i := len(c) - 1; i >= 0; i-- {
		if v, ok := c[i][prefix]; ok {
			return v, true
		}
	}
	if prefix == "xml" {
		return "http://www.w3.org/XML/1998/namespace", true
	}
	return "", prefix == ""
}

// ParseElem builds the DOM of one element given the bindings in scope.
func ParseElem(raw []byte, scope map[string]string) (*Elem, error) {
	d := xml.NewDecoder(bytes.NewReader(raw))
	d.Strict = true
	ctx := nsCtx{scope}
	var stack []*Elem
	var declares []bool // per open element: did it push a map of declarations?
	var root *Elem
	for {
		tok, err := d.RawToken()
		if err == io.EOF {
			break
		}
		if err != nil {
			return nil, err
		}
		switch t := tok.(type) {
		case xml.StartElement:
			binds := map[string]string{}
			for _, a := range t.Attr {
				if a.Name.Space == "" && a.Name.Local == "xmlns" {
					binds[""] = a.Value
				} else if a.Name.Space == "xmlns" {
					binds[a.Name.Local] = a.Value
				}
			}
			// (an element without declarations shares the map of its parent: lookups stay O(number of
			// declaring ancestors), not O(depth) - 250 000 levels of nesting are a legal input)
			if len(binds) > 0 {
				ctx = append(ctx, binds)
			}
			declares = append(declares, len(binds) > 0)
			sp, ok := ctx.lookup(t.Name.Space)
			if !ok {
				return nil, fmt.Errorf("unbound prefix %q", t.Name.Space)
			}
			el := &Elem{Space: sp, Local: t.Name.Local}
			for _, a := range t.Attr {
				if (a.Name.Space == "" && a.Name.Local == "xmlns") || a.Name.Space == "xmlns" {
					continue
				}
				asp := ""
				if a.Name.Space != "" {
					v, ok := ctx.lookup(a.Name.Space)
					if !ok {
						return nil, fmt.Errorf("unbound attribute prefix %q", a.Name.Space)
					}
					asp = v
				}
				el.Attrs = append(el.Attrs, Attr{asp, a.Name.Local, a.Value})
			}
			if len(stack) > 0 {
				p := stack[len(stack)-1]
				p.Children = append(p.Children, el)
			} else if root == nil {
				root = el
			} else {
				return nil, errors.New("more than one root element")
			}
			stack = append(stack, el)
		case xml.EndElement:
			if len(stack) == 0 {
				return nil, errors.New("unbalanced end tag")
			}
			stack = stack[:len(stack)-1]
			if declares[len(declares)-1] {
				ctx = ctx[:len(ctx)-1]
			}
			declares = declares[:len(declares)-1]
		case xml.CharData:
			if len(stack) > 0 {
				stack[len(stack)-1].Text += string(t)
			}
		}
	}
	if root == nil || len(stack) != 0 {
		return nil, errors.New("incomplete element")
	}
	root.Raw = string(raw)
	return root, nil
}

// ---------------------------------------------------------------------------
// Splitter: cuts a stream into root start tag, depth-1 elements, text between
// them and the root end tag.

type ItemKind int

const (
	ItemOpen  ItemKind = iota // start tag of the root element
	ItemElem                  // a complete child of the root
	ItemText                  // character data between children (keepalive whitespace)
	ItemClose                 // end tag of the root
	ItemDecl                  // <?xml ...?> or comment
)

func (k ItemKind) String() string { return [...]string{"open", "elem", "text", "close", "decl"}[k] }

type Item struct {
	Kind ItemKind
	Raw  []byte
	Off  int64 // stream offset of Raw[0]
	Elem *Elem // for ItemOpen (no children) and ItemElem
}

type Splitter struct {
	r     io.Reader
	buf   []byte
	base  int64 // stream offset of buf[0]
	eof   error
	depth int
	Scope map[string]string // bindings declared on the root
	// Framed: every top-level element is its own document (WebSocket framing)
	Framed bool
}

func NewSplitter(r io.Reader) *Splitter {
	return &Splitter{r: r, Scope: map[string]string{}}
}

// Reset starts a new stream on the same byte source (stream restart).
func (s *Splitter) Reset() {
	s.depth = 0
	s.Scope = map[string]string{}
}

// Buffered returns bytes read from the source but not yet consumed.
func (s *Splitter) Buffered() []byte { return s.buf }

// Consumed returns the stream offset of the next unconsumed byte.
func (s *Splitter) Consumed() int64 { return s.base }

func (s *Splitter) fill() error {
	if s.eof != nil {
		return s.eof
	}
	tmp := make([]byte, 4096)
	n, err := s.r.Read(tmp)
	s.buf = append(s.buf, tmp[:n]...)
	if err != nil {
		s.eof = err
		if n > 0 {
			return nil
		}
		return err
	}
	return nil
}

// need makes sure buf[i] exists.
func (s *Splitter) need(i int) error {
	for len(s.buf) <= i {
		if err := s.fill(); err != nil {
			return err
		}
	}
	return nil
}

func (s *Splitter) indexFrom(from int, pat string) (int, error) {
	for {
		if from < len(s.buf) {
			if k := bytes.Index(s.buf[from:], []byte(pat)); k >= 0 {
				return from + k, nil
			}
		}
		keep := len(s.buf) - len(pat) + 1
		if keep > from {
			from = keep
		}
		if err := s.fill(); err != nil {
			return 0, err
		}
	}
}

// tagEnd returns the index of the '>' closing the tag that starts at i,
// honouring quoted attribute values.
func (s *Splitter) tagEnd(i int) (int, error) {
	var q byte
	for j := i + 1; ; j++ {
		if err := s.need(j); err != nil {
			return 0, err
		}
		c := s.buf[j]
		switch {
		case q != 0:
			if c == q {
				q = 0
			}
		case c == '"' || c == '\'':
			q = c
		case c == '>':
			return j, nil
		}
	}
}

func (s *Splitter) consume(n int) []byte {
	raw := append([]byte(nil), s.buf[:n]...)
	s.buf = s.buf[n:]
	s.base += int64(n)
	return raw
}

// Next returns the next item. Errors: the source's error (io.EOF, reset...)
// when the stream ends between items, io.ErrUnexpectedEOF-like wrapped errors
// when it ends inside one, or a syntax error.
func (s *Splitter) Next() (*Item, error) {
	if err := s.need(0); err != nil {
		return nil, err
	}
	off := s.base
	if s.buf[0] != '<' {
		// text up to the next tag
		i := 0
		for {
			if i < len(s.buf) && s.buf[i] == '<' {
				break
			}
			if i >= len(s.buf) {
				if err := s.fill(); err != nil {
					break
				}
				continue
			}
			i++
		}
		return &Item{Kind: ItemText, Raw: s.consume(i), Off: off}, nil
	}
	if err := s.need(1); err != nil {
		return nil, fmt.Errorf("stream ended inside a tag: %w", err)
	}
	switch {
	case s.buf[1] == '?':
		k, err := s.indexFrom(2, "?>")
		if err != nil {
			return nil, fmt.Errorf("stream ended inside a declaration: %w", err)
		}
		return &Item{Kind: ItemDecl, Raw: s.consume(k + 2), Off: off}, nil
	case s.buf[1] == '!':
		k, err := s.indexFrom(2, "-->")
		if err != nil {
			return nil, fmt.Errorf("stream ended inside a comment: %w", err)
		}
		return &Item{Kind: ItemDecl, Raw: s.consume(k + 3), Off: off}, nil
	case s.buf[1] == '/':
		k, err := s.tagEnd(0)
		if err != nil {
			return nil, fmt.Errorf("stream ended inside an end tag: %w", err)
		}
		if s.depth != 1 {
			return nil, fmt.Errorf("unexpected end tag %q at depth %d", s.buf[:k+1], s.depth)
		}
		s.depth = 0
		return &Item{Kind: ItemClose, Raw: s.consume(k + 1), Off: off}, nil
	}
	// a start tag
	k, err := s.tagEnd(0)
	if err != nil {
		return nil, fmt.Errorf("stream ended inside a start tag: %w", err)
	}
	selfClosing := s.buf[k-1] == '/'
	restart := s.depth == 1 && !s.Framed && bytes.HasPrefix(s.buf, []byte("<stream:stream")) && k > 14 && (s.buf[14] == ' ' || s.buf[14] == '>' || s.buf[14] == '\n' || s.buf[14] == '\t')
	if restart {
		// a new stream header on the same connection: stream restart
		s.depth = 0
		s.Scope = map[string]string{}
	}
	if s.depth == 0 && !s.Framed {
		raw := s.consume(k + 1)
		s.depth = 1
		doc := raw
		if !selfClosing {
			doc = append(append([]byte(nil), raw[:len(raw)-1]...), '/', '>')
		}
		el, err := ParseElem(doc, map[string]string{})
		if err != nil {
			return nil, fmt.Errorf("bad stream header %q: %v", raw, err)
		}
		// remember the bindings declared on the root
		d := xml.NewDecoder(bytes.NewReader(doc))
		if tok, err := d.RawToken(); err == nil {
			if se, ok := tok.(xml.StartElement); ok {
				for _, a := range se.Attr {
					if a.Name.Space == "" && a.Name.Local == "xmlns" {
						s.Scope[""] = a.Value
					} else if a.Name.Space == "xmlns" {
						s.Scope[a.Name.Local] = a.Value
					}
				}
			}
		}
		el.Raw = string(raw)
		if selfClosing {
			s.depth = 0
		}
		return &Item{Kind: ItemOpen, Raw: raw, Off: off, Elem: el}, nil
	}
	// complete element: scan to the matching end tag
	end := k + 1
	if !selfClosing {
		depth := 1
		i := k + 1
		for depth > 0 {
			j, err := s.indexFrom(i, "<")
			if err != nil {
				return nil, fmt.Errorf("stream ended inside an element: %w", err)
			}
			if err := s.need(j + 1); err != nil {
				return nil, fmt.Errorf("stream ended inside an element: %w", err)
			}
			switch {
			case s.buf[j+1] == '/':
				e2, err := s.tagEnd(j)
				if err != nil {
					return nil, fmt.Errorf("stream ended inside an element: %w", err)
				}
				depth--
				i = e2 + 1
			case s.buf[j+1] == '!':
				if err := s.need(j + 3); err != nil {
					return nil, fmt.Errorf("stream ended inside an element: %w", err)
				}
				pat := "-->"
				if s.buf[j+2] == '[' {
					pat = "]]>"
				}
				e2, err := s.indexFrom(j+2, pat)
				if err != nil {
					return nil, fmt.Errorf("stream ended inside an element: %w", err)
				}
				i = e2 + len(pat)
			case s.buf[j+1] == '?':
				e2, err := s.indexFrom(j+2, "?>")
				if err != nil {
					return nil, fmt.Errorf("stream ended inside an element: %w", err)
				}
				i = e2 + 2
			default:
				e2, err := s.tagEnd(j)
				if err != nil {
					return nil, fmt.Errorf("stream ended inside an element: %w", err)
				}
				if s.buf[e2-1] != '/' {
					depth++
				}
				i = e2 + 1
			}
		}
		end = i
	}
	raw := s.consume(end)
	scope := s.Scope
	if s.Framed {
		scope = map[string]string{"": nsClient, "stream": nsStream}
	}
	el, err := ParseElem(raw, scope)
	if err != nil {
		return nil, fmt.Errorf("bad element %q: %v", raw, err)
	}
	return &Item{Kind: ItemElem, Raw: raw, Off: off, Elem: el}, nil
}

// SplitAll cuts a complete byte string; it stops at the first error and
// reports it together with what was parsed before.
func SplitAll(b []byte) ([]*Item, error) {
	s := NewSplitter(bytes.NewReader(b))
	var out []*Item
	for {
		it, err := s.Next()
		if err != nil {
			if err == io.EOF {
				return out, nil
			}
			return out, err
		}
		out = append(out, it)
	}
}

func xmlEscape(s string) string {
	var b strings.Builder
	for _, r := range s {
		switch r {
		case '<':
			b.WriteString("&lt;")
		case '>':
			b.WriteString("&gt;")
		case '&':
			b.WriteString("&amp;")
		case '"':
			b.WriteString("&quot;")
		case '\'':
			b.WriteString("&apos;")
		default:
			b.WriteRune(r)
		}
	}
	return b.String()
}
