package sim

import (
	"errors"
	"fmt"
	"io"
	"strings"
	"time"

	xmpp "gosrc.io/xmpp"
	"gosrc.io/xmpp/stanza"
)

// C13 — a StreamManager re-establishes exactly one working session after
// each loss; a permanent error ends the retry loop; Stop makes Run return.

type c13Round struct {
	Fault             string   `json:"fault"`     // drop-fin | drop-rst | graceful | stream-error
	AfterMs           int      `json:"after_ms"`  // when, after the session was (re-)established
	Attempts          []string `json:"attempts"`  // outcome of each following attempt: refuse | timeout | reset | neg-close-header | neg-close-auth | neg-close-bind | permanent-auth | ok
	ResumeOK          bool     `json:"resume_ok"` // server accepts <resume/> on the good connection
	LongOutage        bool     `json:"long_outage,omitempty"`
	OnTick            bool     `json:"fault_on_a_keepalive_tick,omitempty"`
	LostInPostConnect bool     `json:"new_session_lost_while_post_connect_runs,omitempty"`
	AfterFailure      int      `json:"server_after_auth_failure,omitempty"`    // 1 = ends the stream and closes, 2 = resets the connection
	HookFails         int      `json:"post_resume_hook_fails_first,omitempty"` // the application's PostResumeHook refuses the first k sessions of this round
}

type c13Scenario struct {
	Client                 ClientOpts `json:"client"`
	Rounds                 []c13Round `json:"rounds"`
	TLS                    bool       `json:"tls_required,omitempty"`
	ResumeHook             bool       `json:"post_resume_hook_set,omitempty"`
	PostConnectMs          int        `json:"post_connect_callback_takes_ms,omitempty"` // the application's post-connect callback is slow: the new session can be lost while it still runs
	LatencyNs              int64      `json:"latency_ns"`
	Seg                    int        `json:"segmentation"`
	StopDuringFirstConnect bool       `json:"stop_during_the_first_connect,omitempty"`
	WebSocketRefusals      int        `json:"websocket_session_lost_then_refused_dials,omitempty"` // >0: the sub-scenario over the WebSocket transport
	StopEarlyMs            int        `json:"stop_early_ms,omitempty"`                             // >0: Stop is called this long after the last round's fault, whatever the client is doing then
}

func init() {
	register(&PropDef{
		ID:    "C13",
		Rule:  "scenario = a StreamManager running a real client (SM on/off) through 1-4 rounds of: termination of the established session (FIN / RST / graceful </stream:stream> / stream error at a drawn instant), then 0-6 failing attempts (connection refused, dial timeout, accept-then-reset, negotiation cut at header/auth/bind) or a permanent failure (SASL <failure/>, after which the server may end the stream or reset the connection), then a server that accepts again and offers resumption or not, with an application PostResumeHook that refuses the first 0-2 sessions of a round; finally Stop; non-trivial = at least one session was re-established or a permanent error was reached; distinct = distinct (scenario hash, schedule hash)",
		Real:  []string{"xmpp.StreamManager (Run, resume loop, Stop)", "xmpp.backoff", "Client.Connect / Resume incl. start of the receive and keepalive goroutines", "xmpp.NewSession incl. resumption", "ConnError classification"},
		Stub:  []string{"TCP (simnet) incl. refused / timed-out / reset dials", "XMPP server (scripted model)", "clock (synctest)", "goroutine scheduling (token scheduler)", "math/rand jitter (seeded)"},
		Run:   runC13,
		Reach: []string{"c13.reestablished", "c13.permanent_error_reached", "c13.fault_on_keepalive_tick", "c13.lost_during_post_connect", "c13.session_refused_by_resume_hook", "tls.handshake_complete"},
	})
}

func runC13(e *Engine, g G, o RunOpt) RunInfo {
	if g.Pct("websocket", 6) {
		return runC13WS(e, g, o)
	}
	sc := &c13Scenario{Client: DefaultClientOpts()}
	sc.Client.SM = g.Bool("sm")
	sc.Client.SMResume = sc.Client.SM
	sc.Client.KeepaliveNs = int64([]time.Duration{30 * time.Second, 5 * time.Second}[g.N("ka", 2)]) + 1
	// sessions inside TLS, which the client insists on: a connection that drops during STARTTLS is
	// a transient fault like any other drop
	sc.TLS = g.Pct("tls", 20)
	if sc.TLS {
		sc.Client.Insecure = false
		sc.Client.TLS = TLSCfgRoots
		sc.Client.TLSMax12 = true
		if g.Pct("tls-server-name", 35) {
			// the application names the host to check at the TLS layer (the server shows a certificate
			// for both names as long as all is well)
			sc.Client.ServerName = "alt.example"
		}
	}
	sc.ResumeHook = g.Pct("resume-hook", 30)
	nr := g.Range("rounds", 1, 4)
	permanent := false
	for r := 0; r < nr && !permanent; r++ {
		rd := c13Round{}
		rd.Fault = []string{"drop-fin", "drop-rst", "graceful", "stream-error"}[g.Weighted("fault", 4, 3, 3, 2)]
		rd.AfterMs = []int{10, 400, 7000, 65000}[g.N("after", 4)] + g.N("afterjit", 50)
		m := g.Weighted("nfail", 4, 3, 2, 1, 1, 1, 1)
		if g.Pct("long-outage", 6) {
			// hours of refusals: the back-off reaches its cap and the exponent grows large
			m = g.Range("outage", 40, 90)
			for i := 0; i < m; i++ {
				rd.Attempts = append(rd.Attempts, "refuse")
			}
			m = 0
			rd.LongOutage = true
		}
		for i := 0; i < m; i++ {
			kinds := []string{"refuse", "timeout", "reset", "neg-close-header", "neg-close-auth", "neg-close-bind", "neg-error-instead-of-features", "neg-close-starttls", "neg-reset-in-tls-handshake"}
			k := g.Weighted("attempt", 5, 1, 2, 2, 2, 2, 2, 2, 2)
			if !sc.TLS && k >= 7 {
				k = 3
			}
			rd.Attempts = append(rd.Attempts, kinds[k])
		}
		if g.Pct("permanent", 12) {
			if sc.TLS && g.Bool("permanent-kind") {
				// the server answers the TLS handshake with an alert (it insists on a protocol version the
				// application does not allow): a verdict on the TLS policy, not a lost connection
				kinds := []string{"permanent-tls-alert", "permanent-no-starttls"}
				if sc.Client.ServerName != "" {
					// the certificate is good for the host name the application asked the TLS layer to
					// check, but not for the XMPP domain
					kinds = append(kinds, "permanent-cert-not-for-domain")
				}
				rd.Attempts = append(rd.Attempts, kinds[g.N("permanent-tls-kind", len(kinds))])
			} else {
				rd.Attempts = append(rd.Attempts, "permanent-auth")
				rd.AfterFailure = g.Weighted("after-failure", 5, 2, 3)
			}
			permanent = true
		} else {
			rd.Attempts = append(rd.Attempts, "ok")
		}
		rd.ResumeOK = g.Bool("resumeok")
		// the session ends at the very instant a keepalive is due
		rd.OnTick = g.Pct("fault-on-tick", 15)
		rd.LostInPostConnect = g.Pct("lost-in-post-connect", 30)
		if sc.ResumeHook && !permanent && g.Pct("hook-fails", 40) {
			// the application's hook refuses the new session (it could not restore its own state):
			// that session must be given up before the next attempt
			rd.HookFails = 1 + g.N("hook-fails-n", 2)
			rd.LostInPostConnect = false
		}
		sc.Rounds = append(sc.Rounds, rd)
	}
	if g.Pct("slow-post-connect", 20) {
		sc.PostConnectMs = []int{200, 2000, 9000}[g.N("post-connect-ms", 3)]
	}
	if g.Pct("stop-early", 20) {
		// 1: at the instant the new session is up; 2: at the instant of the next connection attempt
		sc.StopEarlyMs = []int{0, 0, 0, 1, 1, 7, 20, 45, 170, 1300, 16000}[g.N("stop-early-ms", 11)] + 1
		sc.StopDuringFirstConnect = !o.Avoiding("stop-during-first-connect") && g.Pct("stop-during-first-connect", 6)
	}
	sc.Seg, sc.LatencyNs = netModes(g, e)
	if sc.LatencyNs > int64(10*time.Millisecond) {
		sc.LatencyNs = int64(3*time.Millisecond) + 1
		e.Net.Latency = time.Duration(sc.LatencyNs)
	}

	good := func(resumeOK bool) NegScript {
		s := DefaultNeg()
		if sc.TLS {
			s.StartTLS = TLSRequired
			s.Cert = CertGood
			if sc.Client.ServerName != "" {
				s.Cert = CertBoth
			}
		}
		s.SM = sc.Client.SM
		if !resumeOK {
			s.Resume = ResumeFailed
		}
		return s
	}
	// the plan of dial outcomes and per-accepted-connection scripts, in order
	var dialPlan []Dial
	scripts := []NegScript{good(true)}
	dialPlan = append(dialPlan, DialAccept)
	for _, rd := range sc.Rounds {
		for _, a := range rd.Attempts {
			switch a {
			case "refuse":
				dialPlan = append(dialPlan, DialRefuse)
			case "timeout":
				dialPlan = append(dialPlan, DialTimeout)
			case "reset":
				dialPlan = append(dialPlan, DialAcceptReset)
			default:
				dialPlan = append(dialPlan, DialAccept)
				s := good(rd.ResumeOK)
				switch a {
				case "neg-close-header":
					s.Header = HdrClose
				case "neg-error-instead-of-features":
					s.Header = HdrStreamError
				case "neg-close-starttls":
					s.TLSReply = TLSClose
				case "neg-reset-in-tls-handshake":
					s.Cert = CertAbort
				case "neg-close-auth":
					s.AuthReply = AuthClose
				case "neg-close-bind":
					s.Bind = BindClose
					s.Resume = ResumeClose
				case "permanent-auth":
					s.AuthReply = AuthFailure
					s.AuthFailDrop = rd.AfterFailure
				case "permanent-tls-alert":
					s.TLS13Only = true
				case "permanent-cert-not-for-domain":
					s.Cert = CertAltName
				case "permanent-no-starttls":
					// the server does not offer STARTTLS (any more): with TLS required that is final
					s.StartTLS = TLSNone
				}
				scripts = append(scripts, s)
			}
		}
		for k := 0; k < rd.HookFails; k++ {
			// one more accepted connection per session the application's hook refuses
			dialPlan = append(dialPlan, DialAccept)
			scripts = append(scripts, good(rd.ResumeOK))
		}
	}
	e.Net.DialPlan = func(n int) Dial {
		if n < len(dialPlan) {
			return dialPlan[n]
		}
		return DialAccept
	}

	var w *CW
	var srv *Server
	postConnects := 0
	runReturned := false
	var runErr error
	firstUp := false
	reestablished := 0
	reachedPermanent := false
	stopped := false
	stopEarly := false
	var sm *xmpp.StreamManager
	var lastUp time.Duration
	hookFailsLeft, refused := 0, 0

	established := func() []*SrvConn {
		var out []*SrvConn
		for _, c := range srv.Conns {
			if c.Established != "" {
				out = append(out, c)
			}
		}
		return out
	}
	// a session works: a stanza from the server reaches the handler and a
	// stanza sent by the application reaches the server
	probeN := 0
	probe := func(c *SrvConn, when string) {
		probeN++
		id := fmt.Sprintf("probe%d", probeN)
		c.Send(fmt.Sprintf("<message id='%s' from='probe@%s'><body>ping</body></message>", id, SimDomain))
		e.Sleep(20 * time.Second)
		seen := false
		for _, h := range w.Handled {
			if h.Kind == "message" && h.ID == id {
				seen = true
			}
		}
		if !seen {
			e.Violate("C13", "session-does-not-receive", "%s: a stanza sent by the server on connection #%d never reached the handler", when, c.Idx)
			return
		}
		sid := "app-" + id
		err, _ := e.Call("Send "+sid, func() error {
			return w.Client.Send(stanza.Message{Attrs: stanza.Attrs{Id: sid, To: "peer@" + SimDomain}, Body: "pong"})
		})
		e.Sleep(5 * time.Second)
		got := false
		for _, r := range c.Elements() {
			if r.Item.Elem.Attr("id") == sid {
				got = true
			}
		}
		if !got {
			e.Violate("C13", "session-does-not-send", "%s: an application Send (error: %v) never reached the server on connection #%d", when, err, c.Idx)
		}
		// ... and is kept alive: 25 s have passed on this connection
		if ka := time.Duration(sc.Client.KeepaliveNs); ka < 10*time.Second && !c.Dead {
			n := 0
			for _, r := range c.Recv {
				if r.Item.Kind == ItemText && strings.Contains(string(r.Item.Raw), "\n") {
					n++
				}
			}
			if n == 0 {
				e.Violate("C13", "session-without-keepalive", "%s: no keepalive reached the server on connection #%d in 25 s (interval %v)", when, c.Idx, ka)
			}
			e.Probe("c13.keepalive_checked")
		}
	}

	e.Run(func() {
		srv = NewServer(e, SimDomain)
		srv.Certs = sharedCerts()
		if sc.StopDuringFirstConnect {
			scripts[0].DelayMs = 4000
		}
		srv.Scripts = scripts
		w = NewCW(e, sc.Client, sharedCerts())
		w.CatchAll()
		if err := w.Create(); err != nil {
			return
		}
		if sc.ResumeHook {
			w.Client.PostResumeHook = func() error {
				if hookFailsLeft > 0 {
					hookFailsLeft--
					refused++
					e.Logf("cb.resumehook", "refuses the session (%d so far)", refused)
					e.Fault("app.post_resume_hook_fails")
					return errors.New("application: state could not be restored")
				}
				e.Logf("cb.resumehook", "ok")
				return nil
			}
		}
		sm = xmpp.NewStreamManager(w.Client, func(s xmpp.Sender) {
			postConnects++
			lastUp = e.Now()
			e.Logf("cb.postconnect", "#%d", postConnects)
			if sc.PostConnectMs > 0 {
				e.Sleep(time.Duration(sc.PostConnectMs)*time.Millisecond + 7*time.Microsecond)
				e.Logf("cb.postconnect", "#%d returns", postConnects)
			}
		})
		e.Go("sm.Run", func() {
			// Run installs its own event handler; ours is chained by the library
			// calling SetHandler, so record through the wrapper below
			runErr = sm.Run()
			runReturned = true
			e.Logf("api.ret", "StreamManager.Run returned %v", runErr)
		})
		if sc.StopDuringFirstConnect {
			// the application gives up while the very first connection is still being negotiated (a slow
			// server): Stop returns, Run returns - with an error or without - and nothing crashes
			e.Sleep(1500*time.Millisecond + 17*time.Microsecond)
			e.Call("StreamManager.Stop", func() error { sm.Stop(); return nil })
			stopped = true
			e.WaitUntilFor("run-returns", 2*time.Minute, func() bool { return runReturned })
			e.Sleep(time.Minute)
			e.Probe("c13.stop_during_the_first_connect")
			return
		}
		if e.WaitUntilFor("first-session", 2*time.Minute, func() bool { return len(established()) == 1 && postConnects >= 1 }) {
			return
		}
		firstUp = true
		e.Sleep(time.Second)
		cur := established()[0]
		probe(cur, "first session")
		for ri, rd := range sc.Rounds {
			if len(e.Violations) > 0 {
				break
			}
			e.Sleep(time.Duration(rd.AfterMs)*time.Millisecond + 555*time.Microsecond)
			if rd.OnTick {
				ka := time.Duration(sc.Client.KeepaliveNs)
				k := (e.Now()-lastUp)/ka + 1
				e.Sleep(lastUp + k*ka - e.Now())
				e.Probe("c13.fault_on_keepalive_tick")
			}
			nEst := len(established()) + rd.HookFails
			hookFailsLeft = rd.HookFails
			tFault := e.Now()
			dialsBefore := e.Net.Dials
			switch rd.Fault {
			case "drop-fin", "drop-rst":
				cli := cur.Pipe.Cli
				cli.CutAt = cur.End.TotalWritten
				cli.CutErr = io.EOF
				if rd.Fault == "drop-rst" {
					cli.CutErr = resetErr("read")
				}
			case "graceful":
				cur.CloseGracefully()
				e.Fault("server.graceful_close")
			case "stream-error":
				cur.Send("<stream:error><system-shutdown xmlns='" + nsStreams + "'/></stream:error></stream:stream>")
				e.Yield("srv.closing")
				cur.Close()
				e.Fault("stream.error")
			}
			if sc.StopEarlyMs > 0 && ri == len(sc.Rounds)-1 {
				// the application gives up while the manager is busy reconnecting
				if sc.StopEarlyMs == 1 {
					// ... at the very moment the server sees the new session come up
					e.WaitUntilFor("stop-at-reestablishment", 30*time.Minute, func() bool { return len(established()) > nEst })
				} else if sc.StopEarlyMs == 2 {
					// ... at the very moment a back-off wait is over and the next attempt starts
					k := 1 + len(rd.Attempts)/2
					e.WaitUntilFor("stop-at-attempt", 30*time.Minute, func() bool { return e.Net.Dials >= dialsBefore+k })
				} else {
					e.Sleep(time.Duration(sc.StopEarlyMs)*time.Millisecond + 13*time.Microsecond)
				}
				e.Probe("c13.stop_during_reconnection")
				stopEarly = true
				break
			}
			perm := strings.HasPrefix(rd.Attempts[len(rd.Attempts)-1], "permanent-")
			budget := time.Duration(len(rd.Attempts)+1+rd.HookFails)*(180*time.Second+3*time.Duration(sc.Client.ConnectTimeout)*time.Second) + 60*time.Second
			if perm {
				// the loop must end: wait for the failing attempt, then make sure nothing else is tried
				e.WaitUntilFor("permanent", budget, func() bool { return e.Net.Dials >= dialsBefore+len(rd.Attempts) })
				e.Sleep(30 * time.Second)
				atPerm := e.Net.Dials
				if atPerm < dialsBefore+len(rd.Attempts) {
					e.Violate("C13", "no-reconnect-attempt:"+rd.Fault, "round %d: after %s at %v only %d of the %d expected connection attempts were made within %v", ri, rd.Fault, tFault, atPerm-dialsBefore, len(rd.Attempts), budget)
					break
				}
				reachedPermanent = true
				e.Sleep(15 * time.Minute)
				if e.Net.Dials != atPerm {
					e.Violate("C13", "retry-after-permanent-error", "round %d: %d further connection attempts after the server rejected the credentials", ri, e.Net.Dials-atPerm)
				}
				break
			}
			timedOut := e.WaitUntilFor("re-established", budget, func() bool { return len(established()) > nEst })
			if timedOut {
				e.Violate("C13", "not-reestablished:"+rd.Fault+":"+attemptKinds(rd.Attempts), "round %d: session terminated (%s) at %v; attempts planned %v; %d connection attempts were made but no session was established within %v", ri, rd.Fault, tFault, rd.Attempts, e.Net.Dials-dialsBefore, budget)
				break
			}
			reestablished++
			if rd.LostInPostConnect && sc.PostConnectMs >= 2000 && !perm && ri == len(sc.Rounds)-1 {
				// the new session is lost again while the application's post-connect callback still runs
				e.Sleep(100 * time.Millisecond)
				nEst2 := len(established())
				c2 := established()[nEst2-1]
				c2.Pipe.Cli.CutAt = c2.End.TotalWritten
				c2.Pipe.Cli.CutErr = io.EOF
				e.Probe("c13.lost_during_post_connect")
				if e.WaitUntilFor("re-established-again", budget, func() bool { return len(established()) > nEst2 }) {
					e.Violate("C13", "not-reestablished:during-post-connect", "round %d: the re-established session was lost while the post-connect callback (%d ms) was still running; no further session was established within %v", ri, sc.PostConnectMs, budget)
					break
				}
				reestablished++
			}
			if rd.LongOutage {
				e.Probe("c13.reestablished_after_long_outage")
			}
			e.Sleep(2 * time.Second)
			cur = established()[len(established())-1]
			resumePossible := sc.Client.SM && rd.ResumeOK
			for _, a := range rd.Attempts {
				if a == "neg-close-bind" {
					// the connection broke in reply to <resume/>: the client rightly dropped its state
					resumePossible = false
				}
			}
			if rd.HookFails > 0 {
				// what remains resumable after the client itself has closed a session is not this property's business
				resumePossible = false
				e.Probe("c13.session_refused_by_resume_hook")
			}
			if resumePossible && cur.Established != "resumed" {
				e.Violate("C13", "not-resumed-when-possible", "round %d: the server offered resumption but the new session was %s", ri, cur.Established)
			}
			probe(cur, fmt.Sprintf("round %d (%s, attempts %v)", ri, rd.Fault, rd.Attempts))
		}
		// let any stray retry loop show itself
		if !stopEarly {
			e.Sleep(10 * time.Minute)
		}
		e.Call("StreamManager.Stop", func() error { sm.Stop(); return nil })
		stopped = true
		e.WaitUntilFor("run-returns", 2*time.Minute, func() bool { return runReturned })
		e.Sleep(5 * time.Minute)
	})

	info := RunInfo{Scenario: sc, Nontrivial: firstUp && (reestablished > 0 || reachedPermanent)}
	if sc.StopDuringFirstConnect {
		for _, p := range e.Panics {
			e.Violate("C13", "panic:"+panicSite(p)+":stop-during-first-connect", "%s: %s\n%s", p.Where, p.Value, clip(p.Stack, 1500))
		}
		if stopped && !runReturned && len(e.Violations) == 0 {
			e.Violate("C13", "run-does-not-return", "Stop() during the first connection attempt: StreamManager.Run did not return within 2 minutes")
		}
		info.Nontrivial = true
		return info
	}
	if !firstUp {
		e.Probe("precondition_failed")
		return info
	}
	if e.Stuck != "" {
		e.Violate("C13", "stuck", "%s", e.Stuck)
	}
	for _, p := range e.Panics {
		e.Violate("C13", "panic:"+panicSite(p), "%s: %s\n%s", p.Where, p.Value, clip(p.Stack, 1200))
	}
	est := established()
	// exactly one new session per termination
	want := 1 + reestablished + refused
	if len(est) != want && len(e.Violations) == 0 && !stopEarly {
		e.Violate("C13", "sessions-per-loss="+cmp3(len(est), want), "%d sessions were established for %d terminations (+ the first one)", len(est), reestablished)
	}
	// never two established connections at once: session i must be over before session i+1 is established
	for i := 1; i < len(est); i++ {
		prev := est[i-1]
		over := prev.Dead || prev.End.IsClosed() || prev.Pipe.Cli.rTerm != nil || prev.Pipe.Cli.IsClosed()
		if !over {
			e.Violate("C13", "two-sessions-at-once", "connection #%d was established while #%d was still alive", est[i].Idx, prev.Idx)
		}
	}
	if postConnects != len(est)-refused && len(e.Violations) == 0 && !stopEarly {
		e.Violate("C13", "postconnect-count="+cmp3(postConnects, len(est)-refused), "PostConnect ran %d times for %d established sessions (%d more were refused by the application's resume hook)", postConnects, len(est)-refused, refused)
	}
	if stopped && !runReturned {
		e.Violate("C13", "run-does-not-return", "StreamManager.Run did not return within 2 minutes of Stop()")
	}
	if reestablished > 0 {
		e.Probe("c13.reestablished")
	}
	if reachedPermanent {
		e.Probe("c13.permanent_error_reached")
	}
	return info
}

func attemptKinds(a []string) string {
	seen := map[string]bool{}
	var out []string
	for _, x := range a {
		if x != "ok" && !seen[x] {
			seen[x] = true
			out = append(out, x)
		}
	}
	if len(out) == 0 {
		return "none"
	}
	return strings.Join(out, "+")
}

// runC13WS: the same promise over the WebSocket transport - an established session is lost, the next
// 1-3 connection attempts are refused, then the server accepts again: the manager re-establishes one
// session. (A loss is only noticed by the next keepalive on this transport.)
func runC13WS(e *Engine, g G, o RunOpt) RunInfo {
	sc := &c13Scenario{Client: DefaultClientOpts()}
	sc.Client.WebSocket, sc.Client.Insecure = true, true
	sc.Client.KeepaliveNs = int64(5*time.Second) + 1
	sc.WebSocketRefusals = g.Range("ws-refusals", 1, 3)
	firstUp, reestablished, stopped, runReturned := false, false, false, false
	e.Run(func() {
		ws := NewWSServer(e)
		defer ws.Stop()
		w := NewCW(e, sc.Client, sharedCerts())
		w.CatchAll()
		if err := w.Create(); err != nil {
			return
		}
		refuse := 0
		e.Net.DialPlan = func(idx int) Dial {
			if refuse > 0 {
				refuse--
				return DialRefuse
			}
			return DialAccept
		}
		postConnects := 0
		sm := xmpp.NewStreamManager(w.Client, func(xmpp.Sender) { postConnects++ })
		e.Go("sm.Run", func() {
			err := sm.Run()
			runReturned = true
			e.Logf("api.ret", "StreamManager.Run returned %v", err)
		})
		up := func(n int) bool { return len(ws.Conns) >= n && ws.Conns[n-1].Established && postConnects >= n }
		if e.WaitUntilFor("first-session", 2*time.Minute, func() bool { return up(1) }) || ws.Conns[0].Pipe == nil {
			return
		}
		firstUp = true
		e.Sleep(time.Second)
		c0 := ws.Conns[0]
		refuse = sc.WebSocketRefusals
		c0.Pipe.Cli.CutAt = c0.Pipe.Srv.TotalWritten
		c0.Pipe.Cli.CutErr = io.EOF
		e.Fault("conn.cut.fin")
		// noticed by the next keepalive; then the refusals with their back-off; then the new session
		reestablished = !e.WaitUntilFor("ws-reestablished", 10*time.Minute, func() bool { return up(2) })
		e.Probe("c13.websocket_session_lost")
		e.Sleep(time.Minute)
		e.Call("StreamManager.Stop", func() error { sm.Stop(); return nil })
		stopped = true
		e.WaitUntilFor("run-returns", 2*time.Minute, func() bool { return runReturned })
		e.Sleep(time.Minute)
	})
	info := RunInfo{Scenario: sc, Nontrivial: firstUp}
	if !firstUp {
		e.Probe("precondition_failed")
		return info
	}
	for _, p := range e.Panics {
		e.Violate("C13", "panic:"+panicSite(p)+":websocket", "%s: %s\n%s", p.Where, p.Value, clip(p.Stack, 1500))
	}
	if e.Stuck != "" {
		e.Violate("C13", "stuck", "%s", e.Stuck)
	}
	if !reestablished && len(e.Violations) == 0 {
		e.Violate("C13", "not-reestablished:websocket:refuse", "WebSocket transport: the session was lost, %d connection attempts were refused, then the server accepted again: no new session within 10 minutes", sc.WebSocketRefusals)
	}
	if stopped && !runReturned && len(e.Violations) == 0 {
		e.Violate("C13", "run-does-not-return", "StreamManager.Run did not return within 2 minutes of Stop() (WebSocket)")
	}
	if reestablished {
		e.Probe("c13.reestablished")
	}
	return info
}
