package sim

import "fmt"

// Negotiation scenario space shared by C03, C04 and C14, and the reference
// model of the statement "connecting succeeds iff the server completed every
// mandatory step, in order".

func okHeader(h int) bool { return h == HdrOK || h == HdrOKDecl || h == HdrOKForeignID }

// certAccepted: does the client's TLS policy accept the presented chain for
// the configured domain? (model of the statement, not of the code: trust in
// the issuer, validity at the fake time, and a name match for the domain —
// and for the ServerName the application asked for — unless verification was
// explicitly disabled).
func certAccepted(o ClientOpts, cert int) bool {
	if cert == CertAbort {
		return false
	}
	switch o.TLS {
	case TLSCfgSkipVerify:
		return true
	case TLSCfgNil:
		return false // system roots do not contain the fixture CA
	}
	validForDomain := cert == CertGood || cert == CertBoth
	validForAlt := cert == CertAltName || cert == CertBoth
	switch o.ServerName {
	case "", SimDomain:
		return validForDomain
	default:
		return validForDomain && validForAlt
	}
}

type negExpect struct {
	Success  bool
	Requests []string // open starttls auth resume bind session enable
	FailStep string
	TLS      bool // TLS is up when authentication starts
	Resumed  bool
}

// negModel is the reference model. hasResume: the client holds a resumption
// id from a previous session.
func negModel(o ClientOpts, s NegScript, hasResume bool) negExpect {
	x := negExpect{Requests: []string{"open"}}
	fail := func(step string) negExpect { x.FailStep = step; return x }
	if !okHeader(s.Header) {
		return fail("header")
	}
	if s.StartTLS != TLSNone {
		x.Requests = append(x.Requests, "starttls")
		if s.TLSReply != TLSProceed {
			return fail("starttls-reply")
		}
		if !certAccepted(o, s.Cert) {
			return fail("tls-handshake")
		}
		x.TLS = true
		x.Requests = append(x.Requests, "open")
		if !okHeader(s.Header2) {
			return fail("header-after-tls")
		}
	} else if !o.Insecure {
		return fail("tls-unavailable")
	}
	mech := "PLAIN"
	if o.OAuth {
		mech = "X-OAUTH2"
	}
	found := false
	for _, m := range s.Mechs {
		if m == mech {
			found = true
		}
	}
	if !found {
		return fail("no-mechanism")
	}
	x.Requests = append(x.Requests, "auth")
	if s.AuthReply != AuthSuccess {
		return fail("auth-reply")
	}
	x.Requests = append(x.Requests, "open")
	if !okHeader(s.Header3) {
		return fail("header-after-auth")
	}
	if s.SM && hasResume {
		x.Requests = append(x.Requests, "resume")
		switch s.Resume {
		case ResumeOK:
			x.Success = true
			x.Resumed = true
			return x
		case ResumeFailed:
			// fall back to bind
		default:
			return fail("resume-reply")
		}
	}
	x.Requests = append(x.Requests, "bind")
	if s.Bind != BindOK {
		return fail("bind-reply")
	}
	if s.Session == SessMandatory {
		x.Requests = append(x.Requests, "session")
		if s.SessionRep != SessionOK {
			return fail("session-reply")
		}
	}
	if s.SM && o.SM {
		x.Requests = append(x.Requests, "enable")
		if s.Enable != EnableOK && s.Enable != EnableNoResume {
			return fail("enable-reply")
		}
	}
	x.Success = true
	return x
}

// classify maps a client item to the request alphabet of the model.
func classifyReq(r *RecvElem) string {
	switch r.Item.Kind {
	case ItemOpen:
		return "open"
	case ItemClose:
		return "close"
	case ItemText:
		return "text"
	}
	el := r.Item.Elem
	switch {
	case el.Is(nsTLS, "starttls"):
		return "starttls"
	case el.Is(nsSASL, "auth"):
		return "auth"
	case el.Is(nsSM, "resume"):
		return "resume"
	case el.Is(nsSM, "enable"):
		return "enable"
	case el.Local == "iq" && el.Child(nsBind, "bind") != nil:
		return "bind"
	case el.Local == "iq" && el.Child(nsSession, "session") != nil:
		return "session"
	case el.Local == "presence" || el.Local == "message" || el.Local == "iq":
		return "stanza:" + el.Local
	}
	return "other:" + el.Local
}

// genClientOpts draws the client configuration dimensions of C03/C04.
func genClientOpts(g G) ClientOpts {
	o := DefaultClientOpts()
	o.Insecure = g.Bool("insecure")
	o.TLS = g.Weighted("tlscfg", 5, 2, 2) // roots / nil / skipverify
	switch o.TLS {
	case 0:
		o.TLS = TLSCfgRoots
	case 1:
		o.TLS = TLSCfgNil
	default:
		o.TLS = TLSCfgSkipVerify
	}
	if o.TLS != TLSCfgNil {
		o.ServerName = []string{"", "", SimDomain, "alt.example"}[g.N("servername", 4)]
	}
	o.SM = g.Bool("sm")
	o.SMResume = g.Bool("smresume")
	if g.Bool("resource") {
		o.Resource = "res"
	} else {
		o.Resource = ""
	}
	o.OAuth = g.Pct("oauth", 20)
	return o
}

// genNegScript draws a server script: mostly successful steps with a few
// deviations (dev = expected number of deviating steps, in percent per step).
func genNegScript(g G, devPct int) NegScript {
	s := DefaultNeg()
	dev := func(kind string, n int) int {
		if g.Pct(kind+"-dev", devPct) {
			return 1 + g.N(kind, n-1)
		}
		return 0
	}
	hdr := func(kind string) int {
		if g.Pct(kind+"-dev", devPct) {
			return []int{HdrWrongRoot, HdrMalformed, HdrClose, HdrStreamError, HdrStreamEnd}[g.N(kind, 5)]
		}
		return []int{HdrOK, HdrOKDecl, HdrOKForeignID}[g.N(kind+"-var", 3)]
	}
	s.Header = hdr("hdr1")
	s.Header2 = hdr("hdr2")
	s.Header3 = hdr("hdr3")
	s.StartTLS = g.N("starttls", 3)
	s.TLSReply = dev("tlsreply", 6)
	s.Cert = []int{CertGood, CertGood, CertBoth, CertWrongHost, CertUntrusted, CertExpired, CertAbort, CertAltName}[g.N("cert", 8)]
	s.Mechs = [][]string{{"PLAIN"}, {"PLAIN", "X-OAUTH2"}, {"SCRAM-SHA-1", "PLAIN"}, {"X-OAUTH2"}, {"SCRAM-SHA-1", "ANONYMOUS"}, {}, {"X-OAUTH2", "X-OAUTH2", "DIGEST-MD5", "PLAIN"}}[g.Weighted("mechs", 6, 3, 3, 1, 1, 1, 2)]
	s.AuthReply = dev("authreply", 8)
	if s.AuthReply == AuthFailure {
		s.AuthCond = []string{"not-authorized", "credentials-expired", "temporary-auth-failure", "account-disabled"}[g.N("authcond", 4)]
	}
	s.ExtraFeats = g.Bool("extrafeats")
	s.Session = g.N("session", 3)
	s.SM = g.Bool("srvsm")
	s.Resume = g.Weighted("resume", 5, 1, 3, 1, 1, 1, 1, 2)
	if s.Resume == ResumeUnreadable {
		s.ResumeAlt = g.N("resume-alt", len(ResumeUnreadableReplies))
	}
	s.Bind = dev("bind", 12)
	s.SessionRep = dev("sessionrep", 7)
	s.Enable = 0
	if g.Pct("enable-dev", devPct) {
		s.Enable = 2 + g.N("enable", 4)
	} else if g.Bool("enable-noresume") {
		s.Enable = EnableNoResume
	}
	s.ResumeOne = g.Pct("resume-spelled-1", 25)
	s.Prefixed = g.Bool("prefixed")
	s.Spaces = g.Bool("spaces")
	s.DelayMs = []int{0, 0, 5, 400}[g.N("delay", 4)]
	s.StreamID = fmt.Sprintf("stream-%d", g.N("sid", 1000))
	return s
}
