package sim

import (
	"fmt"
	"strings"
)

// Inbound traffic generation: what a server can send on an established
// session.

type InEl struct {
	Raw    string `json:"raw"`
	Kind   string `json:"kind"` // message presence iq r a other
	ID     string `json:"id,omitempty"`
	Type   string `json:"type,omitempty"`
	Stanza bool   `json:"stanza"`
	End    int64  `json:"end"` // offset (exclusive) of its last byte in the sequence
	// TextEnd, when set, is the offset at which its whole text has arrived although the WebSocket
	// message that carries it is not finished yet (an empty final frame follows).
	TextEnd int64 `json:"text_end,omitempty"`
}

type InboundOpts struct {
	AllowR      bool
	AllowA      bool
	AllowIQReq  bool // get/set (unmatched ones trigger automatic replies)
	AllowBig    bool
	MaxBig      int  // if > 0, big bodies stay below this many bytes
	AllowNested bool // descendants named like the stanza itself
	AllowSpace  bool // whitespace between elements
	AllowEntity bool
	MaxA        int
	IDPrefix    string
	ResultIDs   []string // ids to use for iq results (pending SendIQ ids), may be empty
	NoIQ        bool
	OnlyStanzas bool
}

var texts = []string{"hi", "hello world", "a &amp; b &lt;c&gt;", "ünïcödé ✓", "x", "line1&#10;line2", "]]&gt;", "  spaced  "}

func genBody(g G, o InboundOpts) string {
	if o.AllowBig && g.Pct("big", 6) {
		n := []int{1500, 9000, 33000, 70000}[g.N("bigsz", 4)]
		if o.MaxBig > 0 && n > o.MaxBig {
			n = []int{o.MaxBig, o.MaxBig / 2, 4000, 4200}[g.N("bigsz-capped", 4)]
		}
		return strings.Repeat("0123456789abcdef", n/16)
	}
	if !o.AllowEntity {
		return []string{"hi", "hello world", "x", "yz"}[g.N("body", 4)]
	}
	return texts[g.N("body", len(texts))]
}

// GenInbound draws n elements.
func GenInbound(g G, n int, o InboundOpts) []InEl {
	var out []InEl
	var off int64
	nextResult := 0
	for i := 0; i < n; i++ {
		id := fmt.Sprintf("%s%d", o.IDPrefix, i+1)
		var el InEl
		w := []int{40, 25, 20, 0, 0, 0}
		if o.NoIQ {
			w[2] = 0
		}
		if o.AllowR && !o.OnlyStanzas {
			w[3] = 12
		}
		if o.AllowA && !o.OnlyStanzas {
			w[4] = 8
		}
		switch g.Weighted("inkind", w...) {
		case 0:
			typ := []string{"", "chat", "normal", "groupchat", "headline", "error"}[g.N("mtype", 6)]
			ta := ""
			if typ != "" {
				ta = " type='" + typ + "'"
			}
			body := genBody(g, o)
			extra := ""
			if o.AllowNested && g.Pct("nested", 15) {
				extra = "<forwarded xmlns='urn:xmpp:forward:0'><message xmlns='jabber:client' id='inner-" + id + "' to='a@b'><body>inner</body></message></forwarded>"
			} else if g.Pct("ext", 25) {
				extra = []string{
					"<active xmlns='http://jabber.org/protocol/chatstates'/>",
					"<request xmlns='urn:xmpp:receipts'/>",
					"<x xmlns='unknown:ns'><y a='1'>t</y><body>not a body</body></x>",
					"<thread>th1</thread>",
				}[g.N("extk", 4)]
			}
			el = InEl{Kind: "message", ID: id, Type: typ, Stanza: true,
				Raw: fmt.Sprintf("<message id='%s' from='peer@%s/r' to='test@%s'%s><body>%s</body>%s</message>", id, SimDomain, SimDomain, ta, body, extra)}
		case 1:
			typ := []string{"", "unavailable", "subscribe", "probe"}[g.N("ptype", 4)]
			ta := ""
			if typ != "" {
				ta = " type='" + typ + "'"
			}
			inner := []string{"", "<show>away</show>", "<status>gone</status><priority>3</priority>", "<x xmlns='http://jabber.org/protocol/muc#user'><item affiliation='none' role='participant'/></x>"}[g.N("pin", 4)]
			if inner == "" {
				el = InEl{Kind: "presence", ID: id, Type: typ, Stanza: true, Raw: fmt.Sprintf("<presence id='%s' from='peer@%s/r'%s/>", id, SimDomain, ta)}
			} else {
				el = InEl{Kind: "presence", ID: id, Type: typ, Stanza: true, Raw: fmt.Sprintf("<presence id='%s' from='peer@%s/r'%s>%s</presence>", id, SimDomain, ta, inner)}
			}
		case 2:
			types := []string{"result", "error"}
			if o.AllowIQReq {
				types = []string{"result", "error", "get", "set"}
			}
			typ := types[g.N("iqtype", len(types))]
			payload := ""
			switch typ {
			case "get", "set":
				payload = []string{"<query xmlns='jabber:iq:version'/>", "<query xmlns='http://jabber.org/protocol/disco#info'/>", "<ping xmlns='urn:xmpp:ping'/>", "<query xmlns='jabber:iq:roster'/>"}[g.N("iqp", 4)]
			case "result":
				payload = []string{"", "<query xmlns='jabber:iq:version'><name>n</name></query>", "<unknown xmlns='x:y'/>"}[g.N("iqp", 3)]
			case "error":
				payload = "<error type='cancel'><service-unavailable xmlns='" + nsStanzas + "'/></error>"
			}
			if (typ == "result" || typ == "error") && nextResult < len(o.ResultIDs) && g.Pct("answers-pending-request", 70) {
				// the answer to a request the application has pending
				id = o.ResultIDs[nextResult]
				nextResult++
			}
			el = InEl{Kind: "iq", ID: id, Type: typ, Stanza: true,
				Raw: fmt.Sprintf("<iq id='%s' type='%s' from='%s' to='test@%s/res'>%s</iq>", id, typ, SimDomain, SimDomain, payload)}
		case 3:
			el = InEl{Kind: "r", Raw: "<r xmlns='" + nsSM + "'/>"}
		case 4:
			h := g.N("ah", o.MaxA+1)
			el = InEl{Kind: "a", Raw: fmt.Sprintf("<a xmlns='%s' h='%d'/>", nsSM, h)}
		}
		if o.AllowSpace && g.Pct("ws", 10) {
			el.Raw = "\n " + el.Raw
		}
		off += int64(len(el.Raw))
		el.End = off
		out = append(out, el)
	}
	return out
}
