package sim

import (
	"fmt"
	"io"
	"strings"
	"time"

	xmpp "gosrc.io/xmpp"
)

// C03 — negotiation succeeds iff the server completed every mandatory step,
// in order.

type c03Scenario struct {
	Client     ClientOpts `json:"client"`
	Pre        bool       `json:"previous_resumable_session"`
	PrePlain   bool       `json:"previous_session_without_sm,omitempty"`
	PreTLS     bool       `json:"previous_session_used_tls,omitempty"`
	PreFailed  string     `json:"previous_failed_attempt,omitempty"` // a failed attempt on the same client before the measured one
	Via        string     `json:"via"`                               // Connect | Resume
	Server     NegScript  `json:"server"`
	Seg        int        `json:"segmentation"`
	LatencyNs  int64      `json:"latency_ns"`
	Expect     negExpect  `json:"model"`
	Deviations int        `json:"deviation_pct"`
	LateFocus  bool       `json:"early_steps_forced_to_succeed,omitempty"`
}

func init() {
	register(&PropDef{
		ID:    "C03",
		Rule:  "scenario = (client configuration incl. TLS policy / SM / resource / credential kind / resumable state from a previous simulated session) x (server script: one alphabet entry per negotiation step, success variants, reply delays) x (segmentation, latency); non-trivial = the server received the client's stream header; distinct = distinct (scenario hash, schedule hash)",
		Real:  []string{"xmpp.Client.Connect/Resume", "xmpp.NewSession and every negotiation step", "auth (SASL)", "xmpp.XMPPTransport incl. StartTLS over crypto/tls", "stanza codec"},
		Stub:  []string{"TCP (simnet)", "XMPP server (scripted model with per-step reply alphabet, real crypto/tls server side)", "clock (synctest)", "goroutine scheduling (token scheduler)", "TLS entropy (seeded)"},
		Run:   runC03,
		Reach: []string{"c03.success", "c03.previous_session_on_tls", "tls.handshake_complete", "c03.fail.enable-reply", "c03.fail.resume-reply", "c03.fail.session-reply", "c03.fail.bind-reply"},
	})
}

func runC03(e *Engine, g G, o RunOpt) RunInfo {
	sc := &c03Scenario{}
	sc.Client = genClientOpts(g)
	sc.Deviations = []int{0, 8, 8, 25}[g.N("devrate", 4)]
	sc.Server = genNegScript(g, sc.Deviations)
	if g.Pct("late-focus", 30) {
		// Every early step succeeds, so that the late steps - bind, the legacy session, enabling stream
		// management, the answer to <resume/> - are reached with their whole alphabets, not only when
		// seven independent draws happen to come out well.
		sc.LateFocus = true
		sc.Client.TLS, sc.Client.ServerName = TLSCfgRoots, ""
		sv := &sc.Server
		sv.Header, sv.Header2, sv.Header3 = HdrOK, HdrOKDecl, HdrOK
		sv.TLSReply, sv.Cert, sv.AuthReply, sv.AuthCond = TLSProceed, CertGood, AuthSuccess, ""
		if !sc.Client.Insecure && sv.StartTLS == TLSNone {
			sv.StartTLS = TLSRequired
		}
		sv.Mechs = [][]string{{"PLAIN", "X-OAUTH2"}, {"X-OAUTH2", "SCRAM-SHA-1", "PLAIN"}}[g.N("late-mechs", 2)]
		switch g.N("late-step", 4) {
		case 0:
			sv.Bind = 1 + g.N("late-bind", 11)
		case 1:
			sv.Bind, sv.Session, sv.SessionRep = BindOK, SessMandatory, 1+g.N("late-sessionrep", 6)
		case 2:
			sc.Client.SM, sv.SM, sv.Bind, sv.SessionRep = true, true, BindOK, SessionOK
			sv.Enable = []int{EnableFailed, EnableOther, EnableClose, EnableFailedEmpty, EnableNoResume, EnableOK}[g.N("late-enable", 6)]
		default:
			// the previous-session draw below decides whether there is something to resume
			sc.Client.Insecure, sc.Client.SM, sv.SM = true, true, true
			sv.Resume = g.N("late-resume", 8)
			if sv.Resume == ResumeUnreadable {
				sv.ResumeAlt = g.N("resume-alt", len(ResumeUnreadableReplies))
			}
		}
	}
	if o.Avoiding("bind-error-echo-accepted") && sc.Server.Bind == BindErrorEcho {
		sc.Server.Bind = BindError
	}
	if o.Avoiding("session-error-accepted") && sc.Server.SessionRep != SessionOK && sc.Server.SessionRep != SessionClose {
		sc.Server.SessionRep = SessionClose
	}
	// (a bind result without the <bind/> payload and its JID has not completed the step: RFC 6120
	// 7.7 - the model treats it like any other reply that is not a confirmation)
	sc.Pre = sc.Client.Insecure && sc.Client.SM && g.Pct("pre", 40+btoi(sc.LateFocus)*30)
	// ... or a previous session without stream management
	sc.PrePlain = !sc.Pre && sc.Client.Insecure && g.Pct("pre-plain", 20)
	// the previous session was on TLS (the next server may not offer it)
	sc.PreTLS = (sc.Pre || sc.PrePlain) && certAccepted(sc.Client, CertGood) && g.Bool("pre-tls")
	if !sc.Pre && !sc.PrePlain && sc.Client.Insecure && g.Pct("pre-failed", 25) {
		sc.PreFailed = []string{"bind-error", "auth-close", "enable-failed", "header3-close", "header-close-then-slow-server", "header-close-then-slow-server"}[g.N("pre-failed-kind", 6)]
		if sc.PreFailed == "header-close-then-slow-server" {
			// the application retries at once, and this time the server takes its time: the negotiation is
			// still under way when every timer the failed attempt may have left behind has fired
			sc.Server.DelayMs = sc.Client.ConnectTimeout * 1000 * 2 / 5
		}
	}
	sc.Via = "Connect"
	if (sc.Pre || sc.PrePlain || sc.PreFailed != "") && g.Bool("via") {
		sc.Via = "Resume"
	}
	sc.Seg, sc.LatencyNs = netModes(g, e)
	sc.Expect = negModel(sc.Client, sc.Server, sc.Pre)

	var w *CW
	var srv *Server
	var callErr error
	var panicked bool
	var retSeq, startSeq int
	var tRet time.Duration
	var stateAfter xmpp.ConnState
	reached := false
	var conn *SrvConn

	e.Run(func() {
		srv = NewServer(e, SimDomain)
		srv.Certs = sharedCerts()
		pre := DefaultNeg()
		pre.SM = sc.Pre
		if sc.PreTLS {
			pre.StartTLS = TLSOffered
			pre.Cert = CertGood
		}
		if sc.PreFailed != "" {
			bad := DefaultNeg()
			bad.SM = true
			switch sc.PreFailed {
			case "bind-error":
				bad.Bind = BindError
			case "auth-close":
				bad.AuthReply = AuthClose
			case "enable-failed":
				bad.Enable = EnableFailed
			case "header-close-then-slow-server":
				bad.Header = HdrClose
			default:
				bad.Header3 = HdrClose
			}
			srv.Scripts = []NegScript{bad, sc.Server}
		} else if sc.Pre || sc.PrePlain {
			srv.Scripts = []NegScript{pre, sc.Server}
		} else {
			srv.Scripts = []NegScript{sc.Server}
		}
		w = NewCW(e, sc.Client, sharedCerts())
		w.CatchAll()
		if err := w.Create(); err != nil {
			return
		}
		if sc.PreFailed != "" {
			// an attempt that fails somewhere after the first features: whatever it leaves behind
			// must not influence the next one
			err, _ := e.Call("Connect(previous attempt, must fail)", w.Client.Connect)
			if err == nil || len(srv.Conns) != 1 {
				e.Probe("precondition_failed")
				return
			}
			if sc.PreFailed == "header-close-then-slow-server" {
				e.Probe("c03.retry_at_once_with_a_slow_server")
			} else {
				e.Sleep(time.Duration(sc.Client.ConnectTimeout+3) * time.Second)
			}
			e.Probe("c03.after_failed_attempt")
		}
		if sc.Pre || sc.PrePlain {
			if sc.PreTLS {
				e.Probe("c03.previous_session_on_tls")
			}
			err, _ := e.Call("Connect(previous session)", w.Client.Connect)
			if err != nil || len(srv.Conns) != 1 {
				e.Probe("precondition_failed")
				return
			}
			e.Sleep(100 * time.Millisecond)
			c0 := srv.Conns[0]
			c0.Pipe.Cli.CutAt = c0.End.TotalWritten
			c0.Pipe.Cli.CutErr = io.EOF
			e.WaitUntilFor("pre-lost", time.Minute, func() bool { return countState(w.Events, xmpp.StateDisconnected) > 0 })
			e.Sleep(time.Second)
		}
		startSeq = len(e.Log)
		if sc.Via == "Resume" {
			callErr, panicked = e.Call("Resume", w.Client.Resume)
		} else {
			callErr, panicked = e.Call("Connect", w.Client.Connect)
		}
		retSeq = len(e.Log)
		tRet = e.Now()
		stateAfter = xmpp.VerifClientState(w.Client)
		if n := len(srv.Conns); n > 0 && ((!sc.Pre && !sc.PrePlain && sc.PreFailed == "") || n > 1) {
			conn = srv.Conns[n-1]
			reached = len(conn.Recv) > 0
		}
		e.Sleep(time.Duration(sc.Client.ConnectTimeout+5) * time.Second)
	})

	info := RunInfo{Scenario: sc, Nontrivial: reached}
	if sc.Server.Bind == BindErrorEcho {
		info.Triggers = append(info.Triggers, "bind-error-echo-accepted")
	}
	if sc.Server.SessionRep == SessionError || sc.Server.SessionRep == SessionOther {
		info.Triggers = append(info.Triggers, "session-error-accepted")
	}
	if e.Stuck != "" {
		e.Violate("C03", "hang", "%s", e.Stuck)
		return info
	}
	for _, p := range e.Panics {
		e.Violate("C03", "panic:"+panicSite(p), "%s: %s\n%s", p.Where, p.Value, clip(p.Stack, 1500))
	}
	if panicked || conn == nil {
		return info
	}
	x := sc.Expect
	// request order
	var got []string
	for _, r := range conn.Recv {
		k := classifyReq(r)
		if k == "text" {
			continue
		}
		if k == "close" {
			break
		}
		if k == "stanza:presence" && x.Success {
			continue // initial presence of a successful Connect
		}
		got = append(got, k)
	}
	// A session request for a session the server marked optional is allowed
	// (not required): take it out before comparing, and do not constrain the
	// outcome if the server then answered it with anything but a result.
	optSession := false
	if sc.Server.Session == SessOptional {
		for i := 1; i < len(got); i++ {
			if got[i] == "session" && got[i-1] == "bind" {
				got = append(got[:i], got[i+1:]...)
				optSession = true
				break
			}
		}
	}
	if optSession {
		e.Probe("c03.optional_session_requested")
	}
	if callErr != nil || !x.Success {
		// the client may stop early (its own error) but must never go past the failing step
		if len(got) > len(x.Requests) || !isPrefix(got, x.Requests) {
			e.Violate("C03", "requests-past-failure:"+x.FailStep, "client requests %v, model allows at most %v (fails at %q)", got, x.Requests, x.FailStep)
		}
	} else if strings.Join(got, ",") != strings.Join(x.Requests, ",") {
		e.Violate("C03", "request-order", "client requests %v, RFC 6120 order for this negotiation is %v", got, x.Requests)
	}
	// outcome
	unconstrained := optSession && sc.Server.SessionRep != SessionOK
	if !unconstrained && x.Success && callErr != nil {
		e.Violate("C03", "failed-although-all-steps-completed", "%s returned %v although the server completed every mandatory step (%v)", sc.Via, callErr, x.Requests)
	}
	if !unconstrained && !x.Success && callErr == nil {
		e.Violate("C03", "success-although:"+x.FailStep, "%s returned nil although the negotiation must fail at step %q", sc.Via, x.FailStep)
	}
	// announcement
	estab := 0
	for _, ev := range w.Events {
		if ev.Seq >= startSeq && ev.State == xmpp.StateSessionEstablished {
			estab++
			if ev.Seq > retSeq {
				e.Violate("C03", "established-announced-late", "SessionEstablished event delivered after %s returned", sc.Via)
			}
		}
	}
	if x.Success && callErr == nil && estab != 1 {
		e.Violate("C03", "established-events="+cnt(estab), "%d SessionEstablished events for a successful %s", estab, sc.Via)
	}
	if !x.Success && !unconstrained {
		if estab > 0 {
			e.Violate("C03", "established-announced-on-failure:"+x.FailStep, "SessionEstablished was announced although negotiation fails at %q", x.FailStep)
		}
		if stateAfter == xmpp.StateSessionEstablished {
			e.Violate("C03", "state-established-on-failure:"+x.FailStep, "state is SessionEstablished after a failed %s (step %q)", sc.Via, x.FailStep)
		}
	}
	if len(conn.Pipelined) > 0 {
		e.Violate("C03", "request-before-confirmation", "%v", conn.Pipelined)
	}
	// bounded return
	var lastAct time.Duration = -1
	for _, s := range conn.Sent {
		if s.Seq <= retSeq {
			lastAct = s.At
		}
	}
	if lastAct >= 0 && tRet-lastAct > time.Duration(4*sc.Client.ConnectTimeout)*time.Second {
		e.Violate("C03", "slow-return", "%s returned %v after the server's last action", sc.Via, tRet-lastAct)
	}
	e.Probe("c03.fail." + x.FailStep)
	if x.Success {
		e.Probe("c03.success")
	}
	_ = fmt.Sprint
	return info
}

func isPrefix(a, b []string) bool {
	if len(a) > len(b) {
		return false
	}
	for i := range a {
		if a[i] != b[i] {
			return false
		}
	}
	return true
}
