package sim

import (
	"gosrc.io/xmpp/simhook"
)

func installHooks(e *Engine) {
	simhook.YieldFn = e.yield
	simhook.YieldUntilFn = e.yieldUntil
	simhook.DialFn = e.Net.dial
	simhook.SelectReverseFn = func() bool { return e.selectReverse }
	simhook.PanicFn = func(fn string, r interface{}, stack []byte) {
		e.recordPanic("library goroutine "+fn, r, stack)
	}
}

func uninstallHooks() {
	// The hooks stay pointed at the finished engine: goroutines abandoned by
	// this run that ever wake up again hit its abort mode and exit. The next
	// run installs its own.
}
