package sim

import (
	"fmt"
	"io"
	"strconv"
	"strings"
	"time"

	xmpp "gosrc.io/xmpp"
	"gosrc.io/xmpp/stanza"
)

// C11 — stream management: resume only with the previous id and count; drop
// stale state.

type c11Conn struct {
	Via       string `json:"via"` // Connect | Resume
	SrvSM     bool   `json:"server_advertises_sm"`
	BindFails bool   `json:"server_refuses_the_bind,omitempty"`
	Enable    int    `json:"enable_reply"` // EnableOK / EnableNoResume / EnableFailed ...
	Resume    int    `json:"resume_reply"`
	SMId      string `json:"sm_id"`
	Inbound   int    `json:"inbound_stanzas"`
	Outbound  int    `json:"outbound_stanzas"`
	CutInside bool   `json:"cut_inside_last_stanza"`
	EndBy     string `json:"ended_by,omitempty"`                    // "" = connection cut; stream-error = the server ends the stream with an error
	MidAck    bool   `json:"acknowledged_then_more_sent,omitempty"` // the server acknowledges everything sent so far, the application then sends more, and the <resumed/> that follows the loss repeats that h
}

type c11Scenario struct {
	Client    ClientOpts `json:"client"`
	Conns     []c11Conn  `json:"connections"`
	Seg       int        `json:"segmentation"`
	LatencyNs int64      `json:"latency_ns"`
}

func init() {
	register(&PropDef{
		ID:    "C11",
		Rule:  "scenario = a history of 2-5 connections on one client (Connect, then Resume/Connect after each loss): the first enables SM (server grants an id with resume true / without / refuses) or not; each later one advertises SM or not and answers <resume/> with resumed(same id) / resumed(other id) / <failed/> (item-not-found) / unexpected element / close; inbound and held outbound stanzas exist before each loss; non-trivial = at least one <resume/> was sent; distinct = distinct (scenario hash, schedule hash)",
		Real:  []string{"Session.resume / NewSession (reuse of the previous session)", "EnableStreamManagement", "Client.Connect / Resume", "SM state (id, inbound count, held queue)"},
		Stub:  []string{"TCP (simnet) with cuts", "XMPP server (scripted model)", "clock (synctest)", "goroutine scheduling (token scheduler)"},
		Run:   runC11,
		Reach: []string{"c11.resumed", "c11.refused", "c11.acknowledged_then_more_sent"},
	})
}

func runC11(e *Engine, g G, o RunOpt) RunInfo {
	sc := &c11Scenario{Client: DefaultClientOpts()}
	sc.Client.SM = true
	sc.Client.SMResume = g.Pct("resumeflag", 80)
	n := g.Range("nconns", 2, 5)
	for i := 0; i < n; i++ {
		c := c11Conn{Via: "Connect", SMId: fmt.Sprintf("sm-%d", i+1)}
		if g.Pct("id-needs-escaping", 20) {
			// the id is opaque text chosen by the server: any attribute-legal characters
			c.SMId = fmt.Sprintf("node=a&seq=%d'x<y>\"z é", i+1)
		}
		if i > 0 {
			c.Via = []string{"Resume", "Connect"}[g.Weighted("via", 3, 1)]
		}
		c.SrvSM = g.Pct("srvsm", 85)
		// a server without stream management that also refuses the bind: the attempt fails, and since no
		// <resume/> was ever sent the resumable session is untouched (identity included)
		c.BindFails = !c.SrvSM && i > 0 && g.Pct("bind-fails", 50)
		c.Enable = []int{EnableOK, EnableOK, EnableOK, EnableNoResume, EnableFailed}[g.N("enable", 5)]
		c.Resume = g.Weighted("resume", 5, 2, 4, 1, 1, 1, 1, 2)
		c.Inbound = g.Range("inbound", 0, 5)
		c.Outbound = g.Range("outbound", 0, 3)
		c.CutInside = g.Bool("cutinside")
		c.MidAck = g.Pct("mid-ack", 30)
		if g.Pct("ended-by-stream-error", 20) {
			c.EndBy = "stream-error"
			c.CutInside = false
		}
		sc.Conns = append(sc.Conns, c)
	}
	sc.Seg, sc.LatencyNs = netModes(g, e)
	if sc.LatencyNs > int64(10*time.Millisecond) {
		sc.LatencyNs = int64(3*time.Millisecond) + 1
		e.Net.Latency = time.Duration(sc.LatencyNs)
	}
	var scripts []NegScript
	for _, c := range sc.Conns {
		s := DefaultNeg()
		s.ResumeOne = g.Pct("resume-spelled-1", 25)
		s.SM = c.SrvSM
		s.Enable = c.Enable
		s.Resume = c.Resume
		s.SMId = c.SMId
		if c.BindFails {
			s.Bind = BindError
		}
		scripts = append(scripts, s)
	}

	// model of the statement
	modelJID := ""     // the JID bound on the session that id belongs to
	modelID := ""      // id from the most recent <enabled/>, not yet discarded
	modelCount := 0    // stanzas completely received on that session
	countKnown := true // false once stanzas were received on a session that is not the stream-managed one
	var staleIDs []string
	resumesSeen := 0
	var srv *Server
	var w *CW
	first := true

	e.Run(func() {
		srv = NewServer(e, SimDomain)
		srv.Scripts = scripts
		srv.BoundPerConn = true
		w = NewCW(e, sc.Client, sharedCerts())
		w.CatchAll()
		if err := w.Create(); err != nil {
			return
		}
		msgN := 0
		nseBefore := map[int]int{}
		sessPrev := 0 // client stanzas the server received on earlier connections of the current stream-managed session
		lastAckH := 0
		for ci, c := range sc.Conns {
			if ci < len(srv.Scripts) {
				// a server repeats in <resumed/> what it last acknowledged
				srv.Scripts[ci].ResumedH = lastAckH
			}
			before := len(srv.Conns)
			var jidBefore string
			var inboundBefore uint
			var heldBefore []string
			if w.Client.Session != nil {
				jidBefore = w.Client.Session.BindJid
				inboundBefore = w.Client.Session.SMState.Inbound
				if q := w.Client.Session.SMState.UnAckQueue; q != nil {
					for _, u := range q.Uslice {
						heldBefore = append(heldBefore, u.Stz)
					}
				}
			}
			var err error
			if c.Via == "Resume" {
				err, _ = e.Call("Resume", w.Client.Resume)
			} else {
				err, _ = e.Call("Connect", w.Client.Connect)
			}
			e.Sleep(200 * time.Millisecond)
			if len(srv.Conns) == before {
				e.Violate("C11", "no-connection-attempt", "connection #%d: %s made no connection (%v)", ci, c.Via, err)
				return
			}
			conn := srv.Conns[len(srv.Conns)-1]
			// what the client asked for on this connection
			var resumes []*Elem
			binds, enables := 0, 0
			stanzasWithoutSession := 0
			sessionUp := false
			for _, r := range conn.Elements() {
				switch classifyReq(r) {
				case "resume":
					resumes = append(resumes, r.Item.Elem)
				case "bind":
					binds++
					sessionUp = true
				case "enable":
					enables++
				default:
					if strings.HasPrefix(classifyReq(r), "stanza:") && !sessionUp && conn.Established != "resumed" {
						stanzasWithoutSession++
					}
				}
			}
			expectResume := c.SrvSM && modelID != "" && !first
			for _, id := range staleIDs {
				for _, r := range resumes {
					if r.Attr("previd") == id {
						e.Violate("C11", "stale-id-presented", "connection #%d: <resume previd=%q/> although that id was discarded after an earlier refusal", ci, id)
					}
				}
			}
			switch {
			case !expectResume && len(resumes) > 0:
				e.Violate("C11", "resume-without-state", "connection #%d: <resume previd=%q/> although the client holds no resumable session (model id %q, server advertises sm: %v)", ci, resumes[0].Attr("previd"), modelID, c.SrvSM)
			case expectResume && len(resumes) == 0 && err == nil:
				e.Violate("C11", "resume-not-attempted", "connection #%d: the client holds id %q and the server advertises stream management, but no <resume/> was sent", ci, modelID)
			case expectResume && len(resumes) > 1:
				e.Violate("C11", "resume-sent-twice", "connection #%d: %d <resume/> requests", ci, len(resumes))
			}
			if expectResume && len(resumes) == 1 {
				resumesSeen++
				r := resumes[0]
				if r.Attr("previd") != modelID {
					e.Violate("C11", "resume-wrong-id", "connection #%d: <resume previd=%q/>, the id obtained when stream management was last enabled is %q", ci, r.Attr("previd"), modelID)
				}
				if h, herr := strconv.Atoi(r.Attr("h")); countKnown && (herr != nil || h != modelCount) {
					e.Violate("C11", "resume-wrong-h", "connection #%d: <resume h=%q/>, %d stanzas were received on the session", ci, r.Attr("h"), modelCount)
				}
				switch c.Resume {
				case ResumeOK:
					e.Probe("c11.resumed")
					if err != nil {
						e.Violate("C11", "resumed-but-failed", "connection #%d: server confirmed the resumption, %s returned %v", ci, c.Via, err)
					}
					if binds > 0 {
						e.Violate("C11", "bind-after-resumed", "connection #%d: the session was resumed and then bound again", ci)
					}
					if s := w.Client.Session; s != nil {
						if modelJID == "" && s.BindJid != jidBefore {
							e.Violate("C11", "identity-changed-by-resume", "connection #%d: BindJid %q before, %q after the resumption", ci, jidBefore, s.BindJid)
						}
						// (the identity of the session that goes on - not of whatever was bound in between on a
						// server without stream management)
						if modelJID != "" && s.BindJid != modelJID {
							e.Violate("C11", "identity-changed-by-resume", "connection #%d: the session was bound as %q when stream management was enabled; after its resumption BindJid is %q", ci, modelJID, s.BindJid)
						}
						if s.SMState.Inbound != inboundBefore {
							e.Violate("C11", "count-changed-by-resume", "connection #%d: inbound count %d before, %d after the resumption", ci, inboundBefore, s.SMState.Inbound)
						}
						var held []string
						if q := s.SMState.UnAckQueue; q != nil {
							for _, u := range q.Uslice {
								held = append(held, u.Stz)
							}
						}
						if c.Via == "Connect" && len(held) == len(heldBefore)+1 && held[len(held)-1] == xmpp.InitialPresence {
							// Connect sends (and holds) a new initial presence: not a change made by the resumption
							held = held[:len(held)-1]
						}
						if strings.Join(held, "\x00") != strings.Join(heldBefore, "\x00") {
							e.Violate("C11", "held-stanzas-changed-by-resume", "connection #%d: held %s before, %s after the resumption", ci, shortStz(heldBefore), shortStz(held))
						}
					}
				case ResumeFailed:
					e.Probe("c11.refused")
					staleIDs = append(staleIDs, modelID)
					modelID = ""
					if binds != 1 {
						e.Violate("C11", "no-bind-after-refusal", "connection #%d: the server refused the resumption; %d bind requests followed (%s returned %v)", ci, binds, c.Via, err)
					} else if err != nil && c.Enable != EnableFailed {
						e.Violate("C11", "refusal-fails-connection", "connection #%d: the server refused the resumption and accepted the bind, but %s returned %v", ci, c.Via, err)
					}
				default:
					e.Probe("c11.other_reply")
					staleIDs = append(staleIDs, modelID)
					modelID = ""
					if err == nil && binds == 0 {
						e.Violate("C11", "continued-after-bad-resume-reply", "connection #%d: reply %d to <resume/> is no confirmation of the id, yet %s succeeded without binding a fresh session", ci, c.Resume, c.Via)
					}
				}
			}
			if stanzasWithoutSession > 0 {
				e.Violate("C11", "traffic-without-session", "connection #%d: %d stanzas were sent before any bind or confirmed resumption", ci, stanzasWithoutSession)
			}
			first = false
			if c.BindFails && err != nil && modelID != "" {
				e.Probe("c11.bind_refused_without_sm")
			}
			// a new <enabled/> starts a new stream-managed session
			for _, s := range conn.Sent {
				if strings.Contains(s.Data, "<enabled ") {
					modelID = c.SMId
					modelCount = 0
					countKnown = true
					modelJID = ""
					if err == nil && w.Client.Session != nil {
						modelJID = w.Client.Session.BindJid // (of a fresh bind: what the server's result said, C03)
					}

				}
			}
			// The server's own count of the client's stanzas: a new session starts at zero; a resumed one goes
			// on from what the server declared in <resumed h/> (what it had not acknowledged before the loss
			// it treats as never received) plus what it receives on this connection.
			if conn.Established == "resumed" && ci < len(srv.Scripts) {
				sessPrev = srv.Scripts[ci].ResumedH
			} else if conn.Enabled {
				sessPrev = 0
				lastAckH = 0
			}
			if err != nil {
				e.Sleep(time.Duration(sc.Client.ConnectTimeout+3) * time.Second)
				continue
			}
			// (stanzas received on a session that is not the stream-managed one are not counted for it: see below)
			if c.MidAck && conn.Enabled && err == nil {
				// the server acknowledges everything it has received on the session so far ...
				e.Sleep(200 * time.Millisecond)
				k := sessPrev + clientStanzasOnSession(conn)
				conn.Send(fmt.Sprintf("<a xmlns='%s' h='%d'/>", nsSM, k))
				lastAckH = k
				e.Sleep(200 * time.Millisecond)
				// ... and the application sends more, which stays held across the loss
				for i := 0; i < 2; i++ {
					msgN++
					id := fmt.Sprintf("out%d", msgN)
					e.Call("Send "+id, func() error {
						return w.Client.Send(stanza.Message{Attrs: stanza.Attrs{Id: id, To: "peer@" + SimDomain}, Body: "held after the ack"})
					})
				}
				e.Sleep(200 * time.Millisecond)
				e.Probe("c11.acknowledged_then_more_sent")
			}
			// traffic on the established session
			base := conn.End.TotalWritten
			var in strings.Builder
			var ends []int
			for i := 0; i < c.Inbound; i++ {
				msgN++
				in.WriteString(fmt.Sprintf("<message id='in%d' from='peer@%s'><body>to the client</body></message>", msgN, SimDomain))
				ends = append(ends, in.Len())
			}
			for i := 0; i < c.Outbound; i++ {
				msgN++
				id := fmt.Sprintf("out%d", msgN)
				e.Call("Send "+id, func() error {
					return w.Client.Send(stanza.Message{Attrs: stanza.Attrs{Id: id, To: "peer@" + SimDomain}, Body: "held"})
				})
			}
			if err == nil && conn.Established == "bound" && !conn.Enabled {
				// a session without stream management: what is sent on it is not held, and in particular
				// not added to what is still held for a stream-managed session that may be resumed later
				var heldNow []string
				if s := w.Client.Session; s != nil && s.SMState.UnAckQueue != nil {
					for _, u := range s.SMState.UnAckQueue.Uslice {
						heldNow = append(heldNow, u.Stz)
					}
				}
				if len(heldNow) > len(heldBefore) {
					e.Violate("C11", "stanzas-of-unmanaged-session-held", "connection #%d has no stream management, yet %d stanzas sent on it were added to the held queue (before %s, now %s)", ci, len(heldNow)-len(heldBefore), shortStz(heldBefore), shortStz(heldNow))
				}
				e.Probe("c11.unmanaged_session")
			}
			cut := int64(in.Len())
			if c.CutInside && c.Inbound > 0 {
				cut -= 5
			}
			cli := conn.Pipe.Cli
			nd := countState(w.Events, xmpp.StateDisconnected)
			nseBefore[ci] = countState(w.Events, xmpp.StateStreamError)
			if ci < len(sc.Conns)-1 && c.EndBy == "" {
				cli.CutAt = base + cut
				cli.CutErr = io.EOF
			}
			if in.Len() > 0 {
				conn.Send(in.String())
			}
			if ci < len(sc.Conns)-1 && c.EndBy == "stream-error" {
				e.Yield("srv.before-error")
				conn.Send("<stream:error><system-shutdown xmlns='" + nsStreams + "'/></stream:error></stream:stream>")
				e.Yield("srv.closing")
				conn.Close()
				e.Fault("stream.error")
			}
			if ci == len(sc.Conns)-1 {
				e.Sleep(5 * time.Second)
				break
			}
			e.WaitUntilFor("lost", time.Minute, func() bool {
				return countState(w.Events, xmpp.StateDisconnected) > nd || (c.EndBy == "stream-error" && countState(w.Events, xmpp.StateStreamError) > nseBefore[ci])
			})
			e.Sleep(time.Second)
			for _, end := range ends {
				if base+int64(end) <= cli.TotalRead && conn.Enabled {
					modelCount++
				}
			}
		}
	})
	info := RunInfo{Scenario: sc, Nontrivial: resumesSeen > 0}
	if e.Stuck != "" {
		e.Violate("C11", "stuck", "%s", e.Stuck)
	}
	for _, p := range e.Panics {
		e.Violate("C11", "panic:"+panicSite(p), "%s: %s", p.Where, p.Value)
	}
	return info
}

// clientStanzasOnSession counts the stanzas the server received on this connection as part of
// the stream-managed session: after <enable/> on a freshly bound connection, after <resume/> on
// a resumed one.
func clientStanzasOnSession(c *SrvConn) int {
	n, on := 0, false
	for _, r := range c.Elements() {
		el := r.Item.Elem
		if el.Is(nsSM, "enable") {
			// a new stream-managed session: what came before (a refused <resume/>, the bind request) is not part of it
			n, on = 0, true
			continue
		}
		if el.Is(nsSM, "resume") {
			on = true
			continue
		}
		if on && (el.Local == "message" || el.Local == "presence" || el.Local == "iq") {
			n++
		}
	}
	return n
}
