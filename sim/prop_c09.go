package sim

import (
	"context"
	"fmt"
	"io"
	"strconv"
	"strings"
	"time"

	xmpp "gosrc.io/xmpp"
	"gosrc.io/xmpp/stanza"
)

// C09 — stream management: the reported inbound count equals the number of
// stanzas received on the stream-managed session.

type c09Part struct {
	ResumeReply string   `json:"resume_reply,omitempty"` // how the server answers <resume/> on this connection: ok | failed
	Inbound     []InEl   `json:"inbound"`
	PendingIDs  []string `json:"requests_pending_when_the_history_arrives,omitempty"` // ids of SendIQ requests the application issued before; some inbound IQs answer them
	Cut         bool     `json:"cut_then_resume"`
	CutAt       int64    `json:"cut_at"`
	CutKind     string   `json:"cut_kind"`
}

type c09Scenario struct {
	EnableNoResume   bool       `json:"enabled_without_resume"`
	MandatorySession bool       `json:"server_requires_session,omitempty"`      // legacy session establishment is mandatory on every connection
	MiddleUnmanaged  bool       `json:"second_connection_without_sm,omitempty"` // the reconnection lands on a server without stream management: a fresh unmanaged session in between
	FirstUnmanaged   bool       `json:"first_connection_without_sm,omitempty"`  // the first server does not offer stream management: stanzas flow, nothing is enabled
	Client           ClientOpts `json:"client"`
	Parts            []c09Part  `json:"parts"`
	Seg              int        `json:"segmentation"`
	LatencyNs        int64      `json:"latency_ns"`
	Dawdle           int        `json:"handler_dawdle"`
}

func init() {
	register(&PropDef{
		ID:    "C09",
		Rule:  "scenario = an inbound history over {message, presence, iq, <r/>, <a/>, other non-stanza elements} of length 0-80 with <r/> at drawn positions, optionally cut at a drawn byte and continued after a resumption (up to 3 resumptions), under drawn segmentation, latency and handler slowness; non-trivial = at least one <r/> was answered or one <resume/> was sent; distinct = distinct (scenario hash, schedule hash)",
		Real:  []string{"Client.recv inbound counter and <r/> answers", "Session.resume (<resume h/>)", "Client.Resume", "EnableStreamManagement"},
		Stub:  []string{"TCP (simnet) with cuts", "XMPP server (scripted model counting the stanzas it sent)", "clock (synctest)", "goroutine scheduling (token scheduler)"},
		Run:   runC09,
		Reach: []string{"c09.resume_checked", "c09.enabled_after_unmanaged_session", "c09.unmanaged_session_in_between", "c09.requests_pending"},
	})
}

func runC09(e *Engine, g G, o RunOpt) RunInfo {
	sc := &c09Scenario{Client: DefaultClientOpts()}
	sc.Client.SM = true
	sc.Client.SMResume = true
	sc.Seg, sc.LatencyNs = netModes(g, e)
	if sc.LatencyNs > int64(10*time.Millisecond) {
		sc.LatencyNs = int64(3*time.Millisecond) + 1
		e.Net.Latency = time.Duration(sc.LatencyNs)
	}
	sc.Dawdle = g.N("dawdle", 3)
	sc.EnableNoResume = g.Pct("noresume", 15)
	nparts := 1 + g.Weighted("resumptions", 5, 3, 1, 1)
	if sc.EnableNoResume {
		// the library gives up on resumption when the server does not grant it
		nparts = 1
	}
	if !sc.EnableNoResume && g.Pct("first-unmanaged", 12) {
		sc.FirstUnmanaged = true
		if nparts < 2 {
			nparts = 2
		}
	}
	if !sc.EnableNoResume && !sc.FirstUnmanaged && g.Pct("middle-unmanaged", 12) {
		sc.MiddleUnmanaged = true
		if nparts < 3 {
			nparts = 3
		}
	}
	idn := 0
	for p := 0; p < nparts; p++ {
		n := 0
		switch g.Weighted("len", 4, 3, 1) {
		case 0:
			n = g.Range("n", 0, 6)
		case 1:
			n = g.Range("n", 5, 25)
		default:
			n = g.Range("n", 25, 80)
		}
		part := c09Part{ResumeReply: "ok"}
		if p > 0 && g.Pct("resume-refused", 30) {
			part.ResumeReply = "failed"
		}
		managed := !(sc.FirstUnmanaged && p == 0) && !(sc.MiddleUnmanaged && p == 1)
		if managed && g.Pct("pending-requests", 30) {
			for k, nk := 0, g.Range("npending", 1, 3); k < nk; k++ {
				part.PendingIDs = append(part.PendingIDs, fmt.Sprintf("pq%d-%d", p, k+1))
			}
		}
		part.Inbound = GenInbound(g, n, InboundOpts{AllowR: managed, AllowA: managed, MaxA: 3, AllowIQReq: true, AllowNested: true, AllowSpace: true, AllowEntity: true, IDPrefix: fmt.Sprintf("p%d-", p), ResultIDs: part.PendingIDs})
		// sprinkle other non-stanza elements
		for i := range part.Inbound {
			if !part.Inbound[i].Stanza && part.Inbound[i].Kind == "a" && g.Pct("other", 30) {
				old := part.Inbound[i]
				raw := "<stream:features><sm xmlns='" + nsSM + "'/></stream:features>"
				delta := int64(len(raw) - len(old.Raw))
				part.Inbound[i] = InEl{Kind: "other", Raw: raw, End: old.End}
				for j := i; j < len(part.Inbound); j++ {
					part.Inbound[j].End += delta
				}
			}
		}
		idn += n
		if p < nparts-1 {
			part.Cut = true
			part.CutAt = int64(g.Range("cutat", 0, int(lastEnd(part.Inbound))))
			part.CutKind = []string{"fin", "rst", "rst-discard"}[g.N("cutkind", 3)]
		}
		sc.Parts = append(sc.Parts, part)
	}
	sc.MandatorySession = g.Pct("mandatory-session", 25)
	script := DefaultNeg()
	script.ResumeOne = g.Pct("resume-spelled-1", 25)
	if sc.MandatorySession {
		script.Session = SessMandatory
	}
	script.SM = !sc.FirstUnmanaged
	if sc.EnableNoResume {
		script.Enable = EnableNoResume
	}
	scripts := []NegScript{script}
	for i := 1; i < len(sc.Parts); i++ {
		s2 := DefaultNeg()
		if sc.MandatorySession {
			s2.Session = SessMandatory
		}
		s2.SM = !(sc.MiddleUnmanaged && i == 1)
		s2.SMId = fmt.Sprintf("sm-%d", i+1)
		if sc.Parts[i].ResumeReply == "failed" {
			s2.Resume = ResumeFailed
		}
		scripts = append(scripts, s2)
	}

	established := false
	var srv *Server
	var w *CW
	checked := 0
	type perConn struct {
		conn     *SrvConn
		part     c09Part
		base     int64
		startCnt int // stanzas counted on the session before this connection
		readEnd  int64
	}
	var pcs []*perConn
	var resumeH []int // expected h of the <resume/> on connection i+1

	e.Run(func() {
		s, ok := StartClient(e, sc.Client, scripts, func(cw *CW, sv *Server) {
			cw.Dawdle = sc.Dawdle
			cw.CatchAll()
		})
		srv, w = s.Srv, s.W
		if !ok || (!s.Conn.Enabled && !sc.FirstUnmanaged) {
			return
		}
		if sc.FirstUnmanaged {
			e.Probe("c09.enabled_after_unmanaged_session")
		}
		established = true
		conn := s.Conn
		count := 0
		for pi, part := range sc.Parts {
			// whatever stanza the server sent after its <enabled/> belongs to the managed session too
			count += stanzasAfterEnabled(conn)
			pc := &perConn{conn: conn, part: part, base: conn.End.TotalWritten, startCnt: count}
			pcs = append(pcs, pc)
			cli := conn.Pipe.Cli
			total := lastEnd(part.Inbound)
			if part.Cut {
				cli.CutAt = pc.base + part.CutAt
				switch part.CutKind {
				case "fin":
					cli.CutErr = io.EOF
				default:
					cli.CutErr = resetErr("read")
					cli.CutDiscard = part.CutKind == "rst-discard"
				}
			}
			for _, id := range part.PendingIDs {
				// requests of the application that are still unanswered when the history arrives:
				// their answers are stanzas like any other
				iq, _ := stanza.NewIQ(stanza.Attrs{Type: stanza.IQTypeGet, Id: id, To: SimDomain})
				iq.Payload = &stanza.Version{}
				ctx, cancel := context.WithCancel(context.Background())
				defer cancel()
				id := id
				e.Call("SendIQ "+id, func() error { _, err := w.Client.SendIQ(ctx, iq); return err })
			}
			if len(part.PendingIDs) > 0 {
				e.Sleep(50 * time.Millisecond)
				e.Probe("c09.requests_pending")
				pc.base = conn.End.TotalWritten
			}
			var all strings.Builder
			for _, el := range part.Inbound {
				all.WriteString(el.Raw)
			}
			conn.SendChunks(all.String(), 800)
			e.WaitUntilFor("drain", 5*time.Minute, func() bool {
				return cli.rTerm != nil || cli.IsClosed() || cli.TotalRead >= pc.base+total
			})
			e.Sleep(10 * time.Second)
			pc.readEnd = cli.TotalRead
			// the client's count after this connection = stanzas completely read - on the
			// stream-managed session: what arrives on an unmanaged session in between is not part of it
			for _, el := range part.Inbound {
				if el.Stanza && pc.base+el.End <= pc.readEnd && (conn.Enabled || (sc.FirstUnmanaged && pi == 0)) {
					count++
				}
			}
			if !part.Cut {
				break
			}
			nd := countState(w.Events, xmpp.StateDisconnected)
			if nd < pi+1 {
				e.WaitUntilFor("lost", time.Minute, func() bool { return countState(w.Events, xmpp.StateDisconnected) >= pi+1 })
			}
			e.Sleep(time.Second)
			before := len(srv.Conns)
			err, _ := e.Call("Resume", w.Client.Resume)
			if err != nil || len(srv.Conns) == before {
				e.Logf("c09", "resume failed: %v", err)
				return
			}
			conn = srv.Conns[len(srv.Conns)-1]
			e.Sleep(100 * time.Millisecond)
			resumeH = append(resumeH, count)
			if conn.Established == "bound" && conn.Enabled {
				// the resumption was refused (or not possible) and a new stream-managed session enabled: counting restarts
				count = 0
			}
			if conn.Established == "bound" && !conn.Enabled {
				e.Probe("c09.unmanaged_session_in_between")
			}
		}
	})

	info := RunInfo{Scenario: sc}
	if !established {
		e.Probe("precondition_failed")
		return info
	}
	if e.Stuck != "" {
		e.Violate("C09", "stuck", "%s", e.Stuck)
	}
	for _, p := range e.Panics {
		e.Violate("C09", "panic:"+panicSite(p), "%s: %s", p.Where, p.Value)
	}
	for ci, pc := range pcs {
		// the <r/> the client completely received, each with the number of stanzas sent before it
		var wantH []int
		var prevKind []string
		cnt := pc.startCnt
		last := "session start"
		for _, el := range pc.part.Inbound {
			if pc.base+el.End > pc.readEnd {
				break
			}
			if el.Stanza {
				cnt++
			}
			if el.Kind == "r" {
				wantH = append(wantH, cnt)
				prevKind = append(prevKind, last)
			}
			last = el.Kind
		}
		var gotH []int
		for _, r := range pc.conn.Elements() {
			el := r.Item.Elem
			if el.Is(nsSM, "a") {
				h, err := strconv.Atoi(el.Attr("h"))
				if err != nil {
					e.Violate("C09", "answer-without-h", "connection #%d: <a/> with h=%q", ci, el.Attr("h"))
					continue
				}
				gotH = append(gotH, h)
			}
			if el.Is(nsSM, "resume") && ci > 0 {
				h, herr := strconv.Atoi(el.Attr("h"))
				checked++
				want := resumeH[ci-1]
				if herr != nil {
					// XEP-0198 5: the count is a required attribute of <resume/>, also when it is zero
					e.Violate("C09", "resume-without-h", "connection #%d: <resume/> reports h=%q; %d stanzas were received on the session", ci, el.Attr("h"), want)
					continue
				}
				if h != want {
					e.Violate("C09", "resume-h-"+cmp3(h, want), "connection #%d: <resume h='%d'/> but %d stanzas were completely received on the session before the loss", ci, h, want)
				}
				e.Probe("c09.resume_checked")
			}
		}
		for i, h := range gotH {
			if i >= len(wantH) {
				e.Violate("C09", "unsolicited-answer", "connection #%d: %d <a/> answers for %d <r/> received", ci, len(gotH), len(wantH))
				break
			}
			checked++
			if h != wantH[i] {
				e.Violate("C09", fmt.Sprintf("answer-h-%s:after-%s", cmp3(h, wantH[i]), prevKind[i]), "connection #%d: answer #%d carries h=%d, the server had sent %d stanzas before that <r/> (element before the <r/>: %s)", ci, i+1, h, wantH[i], prevKind[i])
				break
			}
		}
		if !pc.part.Cut && len(gotH) < len(wantH) {
			e.Violate("C09", "request-not-answered", "connection #%d: %d <r/> received, %d answered", ci, len(wantH), len(gotH))
		}
	}
	info.Nontrivial = checked > 0
	if len(pcs) > 1 {
		e.Probe("c09.history_across_resumption")
	}
	return info
}

// stanzasAfterEnabled counts the stanzas the server has sent on this connection after <enabled/>
// (replies of negotiation steps the client performs after enabling stream management).
func stanzasAfterEnabled(c *SrvConn) int {
	n, on := 0, false
	for _, r := range c.Sent {
		d := r.Data
		if i := strings.Index(d, "<enabled "); i >= 0 && !on {
			on = true
			d = d[i+1:]
		}
		if on {
			n += strings.Count(d, "<iq ") + strings.Count(d, "<message") + strings.Count(d, "<presence")
		}
	}
	return n
}
