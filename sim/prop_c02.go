package sim

import (
	"bytes"
	"encoding/xml"
	"fmt"
	"io"
	"strings"

	"gosrc.io/xmpp/stanza"
)

// C02 — stream parsing: one packet per top-level element, right kind, total
// on any bytes. World: stanza.NextPacket on an xml.Decoder over a simulated
// reader whose segmentation, truncation (EOF at any byte: this library's
// "crash") and corruption the tape decides.

type c02Scenario struct {
	Component bool   `json:"component_ns"`
	Stream    string `json:"stream"`
	Fault     string `json:"fault"` // none | truncate | corrupt
	FaultAt   int    `json:"fault_at"`
	CorruptOp string `json:"corrupt_op,omitempty"`
	CorruptBy byte   `json:"corrupt_byte,omitempty"`
	SegMode   int    `json:"read_segmentation"`
	Elements  int    `json:"elements"`
	Framed    bool   `json:"websocket_framing,omitempty"`
}

func init() {
	register(&PropDef{
		ID:    "C02",
		Rule:  "scenario = (a generated well-formed XMPP stream, rooted or in WebSocket framing: header + 1-40 top-level elements of every kind NextPacket dispatches on, with random attributes and descendant trees incl. registered extensions, unknown-namespace subtrees, known child names inside unknown parents, depth up to 12, descendants named like the stanza, unknown top-level elements, optional stream end) x (read segmentation: whole / random chunks / byte by byte) x (fault: none / truncation at a byte offset / one corrupted byte); non-trivial = at least one element was read; distinct = distinct scenario hash (single task: the schedule is the read segmentation, part of the scenario tape)",
		Real:  []string{"stanza.InitStream", "stanza.NextPacket / NextXmppToken", "every packet decoder and UnmarshalXML (message, presence, iq, error, node, stream features/error, SASL, stream management, handshake)", "encoding/xml"},
		Stub:  []string{"the byte source: an io.Reader returning tape-chosen chunks, EOF at the truncation point, one flipped/inserted/deleted byte", "expected packets come from the harness' own splitter + RawToken DOM (sim/xmltok.go), not from the library's parser"},
		Reach: []string{"c02.websocket_framing", "c02.long_stream"},
		Run:   runC02,
	})
}

// --- generation -------------------------------------------------------------

var c02Names = []string{"x", "y", "item", "body", "message", "iq", "presence", "error", "query", "show", "subject", "data",
	// names HTML gives a special meaning to (void elements): in XML they are names like any other
	"link", "meta", "br", "img", "input", "base", "param", "hr"}
var c02NS = []string{"unknown:ns", "urn:example:a", "http://example.org/b#c", "jabber:client", "jabber:x:data"}
var c02Texts = []string{"", "t", "some text", "a &amp; b", "&lt;tag&gt;", "ünï ✓ 日本", "]]&gt;", "  ", "&#x41;&#10;", "q'\""}

func c02Attrs(g G) string {
	n := g.Weighted("nattr", 6, 3, 1)
	s := ""
	used := map[string]bool{}
	for i := 0; i < n; i++ {
		name := []string{"a", "b", "id", "type", "to", "from", "xml:lang", "node"}[g.N("attrname", 8)]
		if used[name] {
			continue
		}
		used[name] = true
		val := []string{"1", "v", "a&amp;b", "&lt;&gt;", "é", "x y", ""}[g.N("attrval", 7)]
		q := "'"
		if g.Bool("quote") {
			q = "\""
		}
		s += " " + name + "=" + q + val + q
	}
	return s
}

func c02Tree(g G, depth int, forceNS string) string {
	name := c02Names[g.N("name", len(c02Names))]
	ns := forceNS
	if ns == "" && g.Pct("ownns", 40) {
		ns = c02NS[g.N("ns", len(c02NS))]
	}
	nsa := ""
	if ns != "" {
		nsa = " xmlns='" + ns + "'"
	}
	attrs := c02Attrs(g)
	if depth <= 0 || g.Pct("leaf", 35) {
		txt := c02Texts[g.N("text", len(c02Texts))]
		if txt == "" && g.Bool("selfclose") {
			return "<" + name + nsa + attrs + "/>"
		}
		return "<" + name + nsa + attrs + ">" + txt + "</" + name + ">"
	}
	var b strings.Builder
	b.WriteString("<" + name + nsa + attrs + ">")
	k := g.Range("kids", 1, 3)
	for i := 0; i < k; i++ {
		if g.Pct("mixtext", 20) {
			b.WriteString(c02Texts[g.N("text", len(c02Texts))])
		}
		b.WriteString(c02Tree(g, depth-1, ""))
	}
	b.WriteString("</" + name + ">")
	return b.String()
}

func c02Deep(g G, n int) string {
	open, close := "", ""
	for i := 0; i < n; i++ {
		nm := c02Names[g.N("name", len(c02Names))]
		open += "<" + nm + ">"
		close = "</" + nm + ">" + close
	}
	return "<deep xmlns='unknown:deep'>" + open + "leaf" + close + "</deep>"
}

var c02FailConds = []string{"bad-format", "bad-namespace-prefix", "conflict", "connection-timeout", "host-gone", "host-unknown",
	"improper-addressing", "internal-server-error", "invalid-from", "invalid-id", "invalid-namespace", "invalid-xml", "not-authorized",
	"not-well-formed", "policy-violation", "remote-connection-failed", "resource-constraint", "restricted-xml", "see-other-host",
	"system-shutdown", "undefined-condition", "unexpected-request", "unsupported-encoding", "unsupported-stanza-type",
	"unsupported-version", "xml-not-well-formed", "item-not-found", "feature-not-implemented", "service-unavailable"}

// delegation / forwarding payloads (XEP-0355, XEP-0297): a registered extension whose
// decoder is hand-written and recursive
func c02Delegation(g G, kind string) string {
	inner := "<message xmlns='jabber:client' id='fwd' from='a@b' to='c@d'><body>forwarded</body></message>"
	if kind == "iq" {
		inner = "<iq xmlns='jabber:client' id='fwd' type='get' from='a@b' to='c@d'><query xmlns='jabber:iq:version'/></iq>"
	}
	extra := []string{"", "<delay xmlns='urn:xmpp:delay' stamp='2000-01-01T00:00:00Z'/>", "<x xmlns='unknown:ns'><y/></x>"}[g.N("fwdextra", 3)]
	if g.Bool("fwdextra-first") {
		return "<delegation xmlns='urn:xmpp:delegation:1'><forwarded xmlns='urn:xmpp:forward:0'>" + extra + inner + "</forwarded></delegation>"
	}
	return "<delegation xmlns='urn:xmpp:delegation:1'><forwarded xmlns='urn:xmpp:forward:0'>" + inner + extra + "</forwarded></delegation>"
}

var c02MsgExt = []string{
	"<active xmlns='http://jabber.org/protocol/chatstates'/>",
	"<composing xmlns='http://jabber.org/protocol/chatstates'/>",
	"<request xmlns='urn:xmpp:receipts'/>",
	"<received xmlns='urn:xmpp:receipts' id='r1'/>",
	"<x xmlns='jabber:x:oob'><url>http://example.org/f</url><desc>d</desc></x>",
	"<no-store xmlns='urn:xmpp:hints'/>",
	"<markable xmlns='urn:xmpp:chat-markers:0'/>",
	"<html xmlns='http://jabber.org/protocol/xhtml-im'><body xmlns='http://www.w3.org/1999/xhtml'><p>hi <b>there</b></p></body></html>",
	// registered extensions with hand-written decoders: known and unknown children, and a descendant
	// named like the extension element itself
	"<event xmlns='http://jabber.org/protocol/pubsub#event'><items node='n'><item id='i1'/></items></event>",
	"<event xmlns='http://jabber.org/protocol/pubsub#event'><future xmlns='urn:example:future'><event/></future></event>",
	"<event xmlns='http://jabber.org/protocol/pubsub#event'><purge node='n'/><x xmlns='unknown:ns'><event xmlns='http://jabber.org/protocol/pubsub#event'/></x></event>",
}

func c02Stanza(g G, kind string, i int, compNS bool) string {
	id := fmt.Sprintf("e%d", i)
	attrs := ""
	add := func(k, v string) {
		if g.Pct("has-"+k, 70) {
			attrs += " " + k + "='" + v + "'"
		}
	}
	add("id", id)
	add("from", []string{"a@b/c", "srv.example", "ü@d.example/r&amp;s"}[g.N("fromv", 3)])
	add("to", []string{"me@here/x", "here"}[g.N("tov", 2)])
	if g.Pct("lang", 15) {
		attrs += " xml:lang='en'"
	}
	if g.Pct("foreign-attrs", 8) {
		// attributes of other namespaces that are called like the addressing attributes, and
		// namespace declarations whose prefix is called like one: none of them is the element's own
		attrs += " xmlns:x='urn:example:x' x:to='evil@example' x:id='zz' x:type='result' x:from='nobody'"
		if g.Bool("xmlns-to") {
			attrs += " xmlns:to='urn:example:to' xmlns:id='urn:example:id'"
		}
		if g.Bool("xml-id") {
			// the xml: namespace is a namespace like any other (xml:id is a W3C recommendation)
			attrs += " xml:id='zz9' xml:to='evil@example' xml:type='error' xml:from='nobody'"
		}
	}
	nsa := ""
	if g.Pct("explicitns", 20) {
		if compNS {
			nsa = " xmlns='jabber:component:accept'"
		} else {
			nsa = " xmlns='jabber:client'"
		}
	}
	var b strings.Builder
	kids := g.Range("nkids", 0, 5)
	switch kind {
	case "message":
		add("type", []string{"chat", "normal", "groupchat", "headline", "error"}[g.N("mtype", 5)])
		for k := 0; k < kids; k++ {
			switch g.Weighted("mkid", 3, 3, 3, 1, 2, 1, 1) {
			case 6:
				b.WriteString(c02Delegation(g, "message"))
			case 0:
				b.WriteString("<body>" + c02Texts[g.N("text", len(c02Texts))] + "</body>")
			case 1:
				b.WriteString(c02MsgExt[g.N("msgext", len(c02MsgExt))])
			case 2:
				b.WriteString(c02Tree(g, g.Range("depth", 0, 4), c02NS[g.N("ns", len(c02NS)-1)]))
			case 3:
				b.WriteString(c02Deep(g, g.Range("deep", 6, 12)))
			case 4:
				// a descendant named exactly like the stanza (carbons / MAM)
				inner := "<message xmlns='jabber:client' id='inner' to='q@r'><body>inner body</body><thread>t</thread></message>"
				b.WriteString("<forwarded xmlns='urn:xmpp:forward:0'>" + inner + "</forwarded>")
			default:
				b.WriteString("<error type='cancel'><item-not-found xmlns='" + nsStanzas + "'/><text xmlns='" + nsStanzas + "'>nope</text></error>")
			}
		}
		return "<message" + nsa + attrs + ">" + b.String() + "</message>"
	case "presence":
		add("type", []string{"unavailable", "subscribe", "probe", "error"}[g.N("ptype", 4)])
		for k := 0; k < kids; k++ {
			switch g.Weighted("pkid", 3, 2, 3, 1, 1) {
			case 0:
				b.WriteString([]string{"<show>away</show>", "<status>s &amp; t</status>", "<priority>5</priority>"}[g.N("pfield", 3)])
			case 1:
				b.WriteString([]string{
					"<x xmlns='http://jabber.org/protocol/muc'><history maxstanzas='3'/></x>",
					"<x xmlns='http://jabber.org/protocol/muc'><history maxchars='1'><history/></history></x>",
					"<x xmlns='http://jabber.org/protocol/muc'><history seconds='5'><y xmlns='unknown:ns'><history xmlns='http://jabber.org/protocol/muc'/></y></history><password>p</password></x>",
				}[g.N("mucx", 3)])
			case 2:
				b.WriteString(c02Tree(g, g.Range("depth", 0, 4), c02NS[g.N("ns", len(c02NS)-1)]))
			case 3:
				b.WriteString("<x xmlns='unknown:wrap'><presence xmlns='jabber:client' id='inner'><show>dnd</show></presence></x>")
			default:
				b.WriteString(c02Deep(g, g.Range("deep", 6, 12)))
			}
		}
		if b.Len() == 0 && g.Bool("selfclose") {
			return "<presence" + nsa + attrs + "/>"
		}
		return "<presence" + nsa + attrs + ">" + b.String() + "</presence>"
	default: // iq
		typ := []string{"get", "set", "result", "error"}[g.N("itype", 4)]
		attrs += " type='" + typ + "'"
		// usually one payload child; sometimes several (the first decides the payload, the
		// others must still be consumed whole)
		if g.Pct("abyss", 1) {
			// "arbitrarily deep nesting": deeper than any recursion that is bounded by a stack can follow
			n := []int{20000, 120000, 250000}[g.N("abyss-depth", 3)]
			b.WriteString("<deep xmlns='unknown:deep'>" + strings.Repeat("<a>", n) + "x" + strings.Repeat("</a>", n) + "</deep>")
		}
		for k, nk := 0, 1+g.Weighted("iq-extra-kids", 7, 2, 1); k < nk; k++ {
			switch g.Weighted("ipl", 2, 2, 2, 3, 1, 1, 1) {
			case 6:
				b.WriteString(c02Delegation(g, "iq"))
			case 0:
				b.WriteString("<query xmlns='jabber:iq:version'><name>n</name><version>1</version></query>")
			case 1:
				b.WriteString("<query xmlns='http://jabber.org/protocol/disco#info'><identity category='c' type='t'/><feature var='f'/></query>")
			case 2:
				b.WriteString([]string{
					"<query xmlns='jabber:iq:roster'><item jid='a@b' name='n'><group>g</group></item></query>",
					"<pubsub xmlns='http://jabber.org/protocol/pubsub#owner'><delete node='n'/></pubsub>",
					"<pubsub xmlns='http://jabber.org/protocol/pubsub#owner'><future xmlns='urn:example:future'><pubsub/></future></pubsub>",
				}[g.N("iqreg", 3)])
			case 3:
				b.WriteString(c02Tree(g, g.Range("depth", 0, 5), c02NS[g.N("ns", len(c02NS)-1)]))
			case 4:
				b.WriteString("<wrap xmlns='unknown:wrap'><iq xmlns='jabber:client' id='inner' type='get'><query xmlns='jabber:iq:version'/></iq></wrap>")
			}
		}
		if typ == "error" {
			b.WriteString("<error type='modify' code='400'><bad-request xmlns='" + nsStanzas + "'/></error>")
		}
		return "<iq" + nsa + attrs + ">" + b.String() + "</iq>"
	}
}

// features elements as servers send them: any subset of the features the library knows, in any
// order, next to features it does not know - among them features with the same local name as a
// known one in another namespace (ejabberd and Prosody advertise both <sm xmlns='urn:xmpp:sm:2'/>
// and <sm xmlns='urn:xmpp:sm:3'/>)
func c02Features(g G) string {
	pool := []string{
		"<starttls xmlns='" + nsTLS + "'><required/></starttls>",
		"<starttls xmlns='" + nsTLS + "'/>",
		"<mechanisms xmlns='" + nsSASL + "'><mechanism>PLAIN</mechanism></mechanisms>",
		"<mechanisms xmlns='" + nsSASL + "'><mechanism>SCRAM-SHA-1</mechanism><mechanism>PLAIN</mechanism><mechanism>X-OAUTH2</mechanism></mechanisms>",
		"<bind xmlns='" + nsBind + "'/>",
		"<bind xmlns='" + nsBind + "'><required/></bind>",
		"<session xmlns='urn:ietf:params:xml:ns:xmpp-session'><optional/></session>",
		"<sm xmlns='" + nsSM + "'/>",
		"<sm xmlns='" + nsSM + "'><optional/></sm>",
		"<sm xmlns='urn:xmpp:sm:2'/>",
		"<bind xmlns='urn:example:bind:9'/>",
		"<session xmlns='unknown:ns'>text</session>",
		"<mechanisms xmlns='unknown:ns'><mechanism>PLAIN</mechanism></mechanisms>",
		"<starttls xmlns='unknown:tls'><required/></starttls>",
		"<compression xmlns='http://jabber.org/features/compress'><method>zlib</method></compression>",
		"<c xmlns='http://jabber.org/protocol/caps' hash='sha-1' node='http://example.org' ver='abc='/>",
		"<ver xmlns='urn:xmpp:features:rosterver'/>",
		"<register xmlns='http://jabber.org/features/iq-register'/>",
		"<csi xmlns='urn:xmpp:csi:0'/>",
		// known features with extension content, down to a descendant called like the feature itself
		"<starttls xmlns='" + nsTLS + "'><required/><policy xmlns='urn:example:policy'><starttls xmlns='" + nsTLS + "'/></policy></starttls>",
		"<bind xmlns='" + nsBind + "'><x xmlns='urn:example:ext'><bind xmlns='" + nsBind + "'/></x></bind>",
		"<sm xmlns='" + nsSM + "'><x xmlns='urn:example:ext'><sm xmlns='" + nsSM + "'/></x></sm>",
		"<mechanisms xmlns='" + nsSASL + "'><mechanism>PLAIN</mechanism><hostname xmlns='urn:xmpp:domain-based-name:1'>sim.example</hostname></mechanisms>",
		"<session xmlns='urn:ietf:params:xml:ns:xmpp-session'><x xmlns='urn:example:ext'><session xmlns='urn:ietf:params:xml:ns:xmpp-session'/></x></session>",
	}
	if g.Pct("features-classic", 30) {
		return "<stream:features><starttls xmlns='" + nsTLS + "'><required/></starttls><mechanisms xmlns='" + nsSASL + "'><mechanism>PLAIN</mechanism></mechanisms><bind xmlns='" + nsBind + "'/><sm xmlns='" + nsSM + "'/>" + c02Tree(g, 2, "unknown:feature") + "</stream:features>"
	}
	var b strings.Builder
	b.WriteString("<stream:features>")
	k := g.Range("nfeatures", 0, 6)
	for i := 0; i < k; i++ {
		if g.Pct("feature-tree", 10) {
			b.WriteString(c02Tree(g, 2, "unknown:feature"))
			continue
		}
		b.WriteString(pool[g.N("feature", len(pool))])
	}
	b.WriteString("</stream:features>")
	return b.String()
}

func c02Top(g G, i int, compNS bool) string {
	switch g.Weighted("top", 30, 15, 20, 3, 2, 2, 2, 2, 1, 1, 4, 4, 2, 2, 1, 1, 1) {
	case 0:
		return c02Stanza(g, "message", i, compNS)
	case 1:
		return c02Stanza(g, "presence", i, compNS)
	case 2:
		return c02Stanza(g, "iq", i, compNS)
	case 3:
		return c02Features(g)
	case 4:
		return "<stream:error><" + []string{"conflict", "host-unknown", "system-shutdown"}[g.N("sterr", 3)] + " xmlns='" + nsStreams + "'/><text xmlns='" + nsStreams + "'>bye</text></stream:error>"
	case 5:
		if g.Pct("success-text", 30) {
			return "<success xmlns='" + nsSASL + "'>dj1yUTA9</success>"
		}
		return "<success xmlns='" + nsSASL + "'/>"
	case 6:
		return "<failure xmlns='" + nsSASL + "'><not-authorized/><text xml:lang='en'>no</text></failure>"
	case 7:
		if g.Pct("enabled-children", 25) {
			return "<enabled xmlns='" + nsSM + "' id='some-id' resume='true'>" + c02Tree(g, 1, "unknown:ns") + "</enabled>"
		}
		return "<enabled xmlns='" + nsSM + "' id='some-id' resume='true' max='300'/>"
	case 8:
		if g.Pct("resumed-children", 25) {
			return "<resumed xmlns='" + nsSM + "' previd='some-id' h='7'><iq xmlns='jabber:client' id='inside-resumed' type='get'/></resumed>"
		}
		return "<resumed xmlns='" + nsSM + "' previd='some-id' h='7'/>"
	case 9:
		return "<resume xmlns='" + nsSM + "' previd='some-id' h='3'/>"
	case 10:
		if g.Pct("r-children", 25) {
			// nothing forbids content inside an element the library only knows as empty
			return "<r xmlns='" + nsSM + "'>" + c02Tree(g, 2, []string{"unknown:ns", "jabber:client"}[g.N("rns", 2)]) + "</r>"
		}
		return "<r xmlns='" + nsSM + "'/>"
	case 11:
		if g.Pct("a-children", 25) {
			return fmt.Sprintf("<a xmlns='%s' h='%d'><message xmlns='jabber:client' id='inside-a'><body>x</body></message>text</a>", nsSM, g.N("h", 1000))
		}
		return fmt.Sprintf("<a xmlns='%s' h='%d'/>", nsSM, g.N("h", 1000))
	case 12:
		return "<failed xmlns='" + nsSM + "' h='2'><" + c02FailConds[g.N("failcond", len(c02FailConds))] + " xmlns='" + nsStanzas + "'/></failed>"
	case 13:
		if compNS {
			if g.Pct("handshake-children", 25) {
				return "<handshake><presence xmlns='jabber:client' id='inside-handshake'/></handshake>"
			}
			return "<handshake/>"
		}
		return "<handshake xmlns='jabber:component:accept'>abcdef</handshake>"
	case 14:
		return c02Tree(g, 2, "totally:unknown")
	case 15:
		return "<bogus>in the stream's default namespace</bogus>"
	default:
		return "<challenge xmlns='" + nsSASL + "'>abc=</challenge>"
	}
}

// c02SelfContained makes a top-level element carry the namespace declarations it took from the
// stream header, as it must under WebSocket framing.
func c02SelfContained(top string) string {
	k := strings.IndexAny(top, " />")
	end := strings.Index(top, ">")
	if k < 0 || end < 0 {
		return top
	}
	decl := ""
	if !strings.Contains(top[:end], " xmlns='") {
		decl += " xmlns='" + nsClient + "'"
	}
	if strings.HasPrefix(top, "<stream:") {
		decl += " xmlns:stream='" + nsStream + "'"
	}
	return top[:k] + decl + top[k:]
}

func splitAllFramed(b []byte) ([]*Item, error) {
	s := NewSplitter(bytes.NewReader(b))
	s.Framed = true
	var out []*Item
	for {
		it, err := s.Next()
		if err != nil {
			if err == io.EOF {
				return out, nil
			}
			return out, err
		}
		out = append(out, it)
	}
}

// --- expectation (from the harness' own tokenizer) ---------------------------

func c02Expect(el *Elem) (goType string, known bool) {
	switch {
	case (el.Space == nsClient || el.Space == nsComponent) && el.Local == "message":
		return "stanza.Message", true
	case (el.Space == nsClient || el.Space == nsComponent) && el.Local == "presence":
		return "stanza.Presence", true
	case (el.Space == nsClient || el.Space == nsComponent) && el.Local == "iq":
		return "*stanza.IQ", true
	case el.Space == nsComponent && el.Local == "handshake":
		return "stanza.Handshake", true
	case el.Space == nsStream && el.Local == "features":
		return "stanza.StreamFeatures", true
	case el.Space == nsStream && el.Local == "error":
		return "stanza.StreamError", true
	case el.Space == nsSASL && el.Local == "success":
		return "stanza.SASLSuccess", true
	case el.Space == nsSASL && el.Local == "failure":
		return "stanza.SASLFailure", true
	case el.Space == nsSM:
		switch el.Local {
		case "enabled":
			return "stanza.SMEnabled", true
		case "resumed":
			return "stanza.SMResumed", true
		case "resume":
			return "stanza.SMResume", true
		case "r":
			return "stanza.SMRequest", true
		case "a":
			return "stanza.SMAnswer", true
		case "failed":
			return "stanza.SMFailed", true
		}
	}
	return "", false
}

func c02Addr(p stanza.Packet) (id, from, to, typ string, ok bool) {
	switch v := p.(type) {
	case stanza.Message:
		return v.Id, v.From, v.To, string(v.Type), true
	case stanza.Presence:
		return v.Id, v.From, v.To, string(v.Type), true
	case *stanza.IQ:
		return v.Id, v.From, v.To, string(v.Type), true
	}
	return "", "", "", "", false
}

// chunkReader hands out the stream in tape-chosen chunks.
type chunkReader struct {
	data  []byte
	pos   int
	sizes []int
	k     int
	reads int
	max   int
}

func (c *chunkReader) Read(p []byte) (int, error) {
	c.reads++
	if c.reads > c.max {
		panic("simulated reader: read budget exceeded (parser does not terminate)")
	}
	if c.pos >= len(c.data) {
		return 0, io.EOF
	}
	n := len(c.data) - c.pos
	if c.k < len(c.sizes) {
		if c.sizes[c.k] < n {
			n = c.sizes[c.k]
		}
		c.k++
	}
	if n > len(p) {
		n = len(p)
	}
	copy(p, c.data[c.pos:c.pos+n])
	c.pos += n
	return n, nil
}

type c02Result struct {
	kind              string // go type, or "close", or "error"
	id, from, to, typ string
	addr              bool
	err               string
}

func c02Parse(data []byte, sizes []int, maxCalls int) (res []c02Result, initErr error, reads int, panicked interface{}) {
	rd := &chunkReader{data: data, sizes: sizes, max: len(data) + maxCalls + 16}
	defer func() {
		reads = rd.reads
		if r := recover(); r != nil {
			panicked = r
		}
	}()
	d := xml.NewDecoder(rd)
	if _, err := stanza.InitStream(d); err != nil {
		return nil, err, rd.reads, nil
	}
	for i := 0; i < maxCalls; i++ {
		p, err := stanza.NextPacket(d)
		if err != nil {
			res = append(res, c02Result{kind: "error", err: err.Error()})
			return
		}
		r := c02Result{kind: fmt.Sprintf("%T", p)}
		if _, ok := p.(stanza.StreamClosePacket); ok {
			r.kind = "close"
		}
		r.id, r.from, r.to, r.typ, r.addr = c02Addr(p)
		res = append(res, r)
	}
	res = append(res, c02Result{kind: "error", err: "call budget exhausted"})
	return
}

func runC02(e *Engine, g G, o RunOpt) RunInfo {
	sc := &c02Scenario{}
	sc.Component = g.Pct("compns", 25)
	defNS := nsClient
	if sc.Component {
		defNS = nsComponent
	}
	// RFC 7395 framing, as the WebSocket transport feeds it to the same decoder: no root element, the
	// stream is opened by a self-closing <open/> and every top-level element declares its own namespaces
	sc.Framed = !sc.Component && g.Pct("framed", 12)
	var b strings.Builder
	hdr := fmt.Sprintf("<?xml version='1.0'?><stream:stream id='sid' from='h' xmlns='%s' xmlns:stream='%s' version='1.0'>", defNS, nsStream)
	if sc.Framed {
		hdr = "<open xmlns='" + nsFraming + "' from='h' id='sid' version='1.0'" + []string{"/>", "></open>", " />"}[g.N("openform", 3)]
	}
	b.WriteString(hdr)
	n := g.Range("nel", 1, 12)
	if g.Pct("long", 15) {
		n = g.Range("nel-long", 13, 40)
	}
	for i := 0; i < n; i++ {
		if g.Pct("ws", 15) {
			b.WriteString([]string{"\n", " ", "\n\t "}[g.N("wsk", 3)])
		}
		top := c02Top(g, i+1, sc.Component)
		if sc.Framed {
			top = c02SelfContained(top)
		}
		b.WriteString(top)
	}
	if g.Pct("close", 40) {
		if sc.Framed {
			b.WriteString("<close xmlns='" + nsFraming + "'/>")
		} else {
			b.WriteString("</stream:stream>")
		}
	}
	full := []byte(b.String())
	sc.Elements = n
	sc.SegMode = g.Weighted("segmode", 3, 4, 2, 2)
	sc.Fault = []string{"none", "truncate", "corrupt"}[g.Weighted("fault", 5, 3, 2)]
	data := append([]byte(nil), full...)
	switch sc.Fault {
	case "truncate":
		sc.FaultAt = g.Range("truncat", 0, len(full))
		data = data[:sc.FaultAt]
		e.Fault("reader.truncated")
	case "corrupt":
		sc.FaultAt = g.Range("corruptat", len(hdr), len(full)-1)
		sc.CorruptOp = []string{"flip", "insert", "delete"}[g.N("corruptop", 3)]
		sc.CorruptBy = []byte{'<', '>', '&', '/', 'x', '\'', '"', 0, 0xff, ' ', ';', '='}[g.N("corruptby", 12)]
		switch sc.CorruptOp {
		case "flip":
			data[sc.FaultAt] = sc.CorruptBy
		case "insert":
			data = append(data[:sc.FaultAt], append([]byte{sc.CorruptBy}, data[sc.FaultAt:]...)...)
		default:
			data = append(data[:sc.FaultAt], data[sc.FaultAt+1:]...)
		}
		e.Fault("reader.corrupted_byte")
	}
	sc.Stream = string(full)
	if len(sc.Stream) > 6000 {
		sc.Stream = sc.Stream[:6000] + "…"
	}
	// read sizes
	var sizes []int
	switch sc.SegMode {
	case 0: // whole
	case 1:
		for tot := 0; tot < len(data); {
			k := 1 + g.N("chunk", 64)
			sizes = append(sizes, k)
			tot += k
		}
	case 2:
		for i := 0; i < len(data); i++ {
			sizes = append(sizes, 1)
		}
	default:
		for tot := 0; tot < len(data); {
			k := 1 + g.N("chunk", 7)
			sizes = append(sizes, k)
			tot += k
		}
	}

	// expectation from the independent splitter, on the unfaulted stream
	items, serr := SplitAll(full)
	if sc.Framed {
		items, serr = splitAllFramed(full)
		if serr == nil {
			items = items[1:] // <open/> is what InitStream consumes
		}
		e.Probe("c02.websocket_framing")
	}
	if serr != nil {
		panic(fmt.Sprintf("generator produced a stream the harness cannot split: %v\n%s", serr, full))
	}
	type want struct {
		kind string
		el   *Elem
		end  int64
	}
	var wants []want
	for _, it := range items {
		switch it.Kind {
		case ItemElem:
			k, known := c02Expect(it.Elem)
			if !known {
				k = "error"
			}
			wants = append(wants, want{kind: k, el: it.Elem, end: it.Off + int64(len(it.Raw))})
		case ItemClose:
			wants = append(wants, want{kind: "close", end: it.Off + int64(len(it.Raw))})
		}
	}

	var res []c02Result
	var initErr error
	var reads int
	var pan interface{}
	var res2 []c02Result
	e.Run(func() {
		res, initErr, reads, pan = c02Parse(data, sizes, len(wants)+3)
		e.Yield("c02.parsed")
		if sc.Fault == "none" && sc.SegMode != 0 {
			// the same bytes, read whole: the result must not depend on the segmentation
			res2, _, _, _ = c02Parse(data, nil, len(wants)+3)
		}
		for i, r := range res {
			e.Logf("parse", "#%d %s id=%q from=%q to=%q type=%q %s", i, r.kind, r.id, r.from, r.to, r.typ, r.err)
		}
	})
	info := RunInfo{Scenario: sc, Nontrivial: len(res) > 0}
	if pan != nil {
		e.Violate("C02", "panic", "parsing panicked: %v", pan)
		return info
	}
	if initErr != nil {
		if sc.Fault == "none" {
			e.Violate("C02", "header-rejected", "InitStream failed on a well-formed header: %v", initErr)
		}
		return info
	}
	// how far are results constrained?
	limit := int64(len(full)) + 1
	if sc.Fault != "none" {
		limit = int64(sc.FaultAt)
	}
	for i, w := range wants {
		if w.end > limit {
			// elements touched by the fault: anything goes, but the sequence must have ended with an error
			break
		}
		if i >= len(res) {
			e.Violate("C02", "packet-missing", "element #%d (%s) yielded no packet; results: %d", i, w.kind, len(res))
			return info
		}
		r := res[i]
		if r.kind != w.kind {
			extra := ""
			if w.el != nil {
				extra = clip(w.el.Raw, 400)
			}
			e.Violate("C02", "wrong-kind:"+w.kind+"->"+r.kind, "element #%d should yield %s, got %s %s\n%s", i, w.kind, r.kind, r.err, extra)
			return info
		}
		if w.kind == "error" {
			e.Probe("c02.unknown_top_level")
			return info // reading stops at the first error
		}
		if r.addr && w.el != nil {
			if r.id != w.el.Attr("id") || r.from != w.el.Attr("from") || r.to != w.el.Attr("to") || r.typ != w.el.Attr("type") {
				e.Violate("C02", "addressing-attributes", "element #%d %s: packet has id=%q from=%q to=%q type=%q", i, clip(w.el.Raw, 200), r.id, r.from, r.to, r.typ)
				return info
			}
		}
	}
	if sc.Fault == "none" {
		// after the last element: either close, or "connection closed" error at EOF
		if len(res) != len(wants)+1 && !(len(res) == len(wants) && len(wants) > 0 && wants[len(wants)-1].kind == "close") {
			// the close packet ends the expected list; otherwise one trailing EOF error
			if !(len(res) == len(wants)+1) {
				e.Violate("C02", "extra-or-missing-packets", "%d elements, %d results", len(wants), len(res))
			}
		}
		if res2 != nil {
			if len(res2) != len(res) {
				e.Violate("C02", "segmentation-dependent", "reading the same bytes whole gives %d results, segmented %d", len(res2), len(res))
			} else {
				for i := range res {
					if res[i].kind != res2[i].kind || res[i].id != res2[i].id {
						e.Violate("C02", "segmentation-dependent", "result #%d differs between whole and segmented reads: %v vs %v", i, res2[i], res[i])
						break
					}
				}
			}
		}
	} else {
		// faulted: the loop "call until error" must have ended with an error or the close packet
		last := res[len(res)-1]
		if last.kind != "error" && last.kind != "close" {
			e.Violate("C02", "no-error-on-bad-stream", "reading a %s stream ended without an error", sc.Fault)
		}
		if last.err == "call budget exhausted" {
			e.Violate("C02", "unbounded-on-bad-stream", "reading a %s stream returned more packets than the stream has elements", sc.Fault)
		}
	}
	if reads > len(data)+len(res)+16 {
		e.Violate("C02", "too-many-reads", "%d reads for %d bytes", reads, len(data))
	}
	if n >= 13 {
		e.Probe("c02.long_stream")
	}
	return info
}
