package sim

import (
	"fmt"
	"io"
	"strings"
	"time"

	xmpp "gosrc.io/xmpp"
	"gosrc.io/xmpp/stanza"
)

// C04 — no credentials or stanzas without verified TLS unless insecure mode
// is requested. Monitored at the server end of every connection of the run.

type c04Conn struct {
	Server NegScript `json:"server"`
	Via    string    `json:"via"`
}

type c04Scenario struct {
	WSAddr            string     `json:"websocket_address,omitempty"` // the WebSocket sub-scenario: a server that only speaks clear-text XMPP over WebSocket
	Client            ClientOpts `json:"client"`
	Conns             []c04Conn  `json:"connections"`
	Seg               int        `json:"segmentation"`
	LatencyNs         int64      `json:"latency_ns"`
	SendAfterRefusal  bool       `json:"application_sends_after_a_failed_attempt,omitempty"`
	DisconnectBetween bool       `json:"sessions_ended_by_disconnect,omitempty"`
	NoRoutes          bool       `json:"application_registers_no_route,omitempty"` // unhandled IQ requests are answered by the library itself
	TLSResumption     bool       `json:"tls_session_resumption,omitempty"`         // client session cache + server session tickets
}

func init() {
	register(&PropDef{
		ID:    "C04",
		Rule:  "scenario = (Insecure, TLS config nil / fixture roots / InsecureSkipVerify, ServerName) x a history of 1-3 connections on one client, each with STARTTLS {absent, offered, required} x reply {proceed, failure, unexpected, malformed, close} x certificate {good, good for both names, wrong host, untrusted, expired, valid only for ServerName, handshake aborted}; non-trivial = at least one connection received the client's stream header; distinct = distinct (scenario hash, schedule hash)",
		Real:  []string{"xmpp.Client.Connect/Resume", "xmpp.NewSession TLS gate", "XMPPTransport.StartTLS", "crypto/tls + crypto/x509 on both ends"},
		Stub:  []string{"TCP (simnet)", "XMPP server (scripted model, real tls.Server with Ed25519 fixture chains)", "clock (synctest; certificates valid around the fake epoch)", "goroutine scheduling (token scheduler)", "TLS entropy (seeded)"},
		Run:   runC04,
		Reach: []string{"c04.tls_established", "c04.websocket_address", "srv.request_after_client_closed", "c04.tls_session_resumed"},
	})
}

func runC04(e *Engine, g G, o RunOpt) RunInfo {
	sc := &c04Scenario{}
	sc.Client = genClientOpts(g)
	sc.Client.SM = false
	sc.Client.OAuth = false
	if g.Pct("address-host-differs", 20) {
		// the server is reached under another host name than the domain of the account (an explicit
		// address or an SRV target): the certificate still has to be valid for the account's domain
		sc.Client.Address = "alt.example:5222"
	}
	if g.Pct("websocket-address", 10) {
		return runC04WS(e, g, sc)
	}
	// TLS session resumption: a resumed session carries the certificate of the first handshake, and
	// it has to be valid for the account's domain just the same
	sc.TLSResumption = sc.Client.TLS != TLSCfgNil && g.Pct("tls-resumption", 25)
	sameCert := -1
	if sc.TLSResumption {
		sc.Client.TLSSessionCache = true
		sc.Client.TLSMax12 = g.Bool("tls-resumption-1.2")
		if g.Bool("tls-resumption-servername") {
			sc.Client.ServerName = "alt.example"
		}
		if g.Pct("tls-resumption-same-cert", 70) {
			sameCert = []int{CertAltName, CertAltName, CertBoth, CertGood, CertWrongHost}[g.N("tls-resumption-cert", 5)]
		}
	}
	n := 1 + g.Weighted("nconns", 5, 3, 2+4*btoi(sc.TLSResumption))
	if o.Avoiding("tls-state-stale-across-reconnect") {
		n = 1
	}
	for i := 0; i < n; i++ {
		s := DefaultNeg()
		s.StartTLS = g.N("starttls", 3)
		if g.Pct("tlsreply-dev", 30) {
			s.TLSReply = 1 + g.N("tlsreply", 4)
		}
		s.Cert = []int{CertGood, CertGood, CertBoth, CertWrongHost, CertUntrusted, CertExpired, CertAbort, CertAltName}[g.N("cert", 8)]
		if sameCert >= 0 {
			s.Cert, s.TLSReply = sameCert, TLSProceed
			if s.StartTLS == TLSNone {
				s.StartTLS = TLSOffered
			}
		}
		if g.Pct("header-dev", 12) {
			// the attempt already fails at the stream header, and the peer keeps reading
			s.Header = []int{HdrWrongRoot, HdrMalformed, HdrStreamError}[g.N("header", 3)]
		}
		s.ExtraFeats = g.Bool("extra")
		s.DelayMs = []int{0, 0, 15}[g.N("delay", 3)]
		s.ProbeOnClose = g.Pct("probe-after-failure", 30)
		via := "Connect"
		if i > 0 && g.Bool("via") {
			via = "Resume"
		}
		sc.Conns = append(sc.Conns, c04Conn{Server: s, Via: via})
	}
	sc.Seg, sc.LatencyNs = netModes(g, e)
	sc.NoRoutes = g.Bool("no-routes")
	sc.SendAfterRefusal = g.Bool("send-after-refusal")
	sc.DisconnectBetween = g.Pct("disconnect-between", 40)

	type attempt struct {
		err   error
		conn  *SrvConn
		tlsUp bool // a connection of this client completed TLS before (for the stale-state trigger)
	}
	var atts []attempt
	var srv *Server
	priorTLS := false
	stale := false

	e.Run(func() {
		srv = NewServer(e, SimDomain)
		srv.Certs = sharedCerts()
		srv.TLSTickets = sc.TLSResumption
		for _, c := range sc.Conns {
			srv.Scripts = append(srv.Scripts, c.Server)
		}
		w := NewCW(e, sc.Client, sharedCerts())
		if !sc.NoRoutes {
			w.CatchAll()
		}
		if err := w.Create(); err != nil {
			return
		}
		for i, c := range sc.Conns {
			before := len(srv.Conns)
			var err error
			if c.Via == "Resume" {
				err, _ = e.Call("Resume", w.Client.Resume)
			} else {
				err, _ = e.Call("Connect", w.Client.Connect)
			}
			a := attempt{err: err, tlsUp: priorTLS}
			if len(srv.Conns) > before {
				a.conn = srv.Conns[len(srv.Conns)-1]
				if a.conn.TLS {
					priorTLS = true
				}
			}
			atts = append(atts, a)
			if a.tlsUp {
				stale = true
			}
			e.Sleep(200 * time.Millisecond)
			if err != nil && sc.SendAfterRefusal {
				// the application does not notice (or ignores) the failure and sends: there is no session,
				// and whatever connection is left must not carry the stanza
				e.Call("Send after the failed attempt", func() error {
					return w.Client.Send(stanza.Message{Attrs: stanza.Attrs{Id: fmt.Sprintf("late%d", i), To: "peer@" + SimDomain}, Body: "sent without a session"})
				})
				e.Sleep(200 * time.Millisecond)
			}
			if i == len(sc.Conns)-1 {
				break
			}
			if err == nil && sc.DisconnectBetween {
				// the application ends the session itself
				e.Call("Disconnect", w.Client.Disconnect)
				e.Sleep(time.Duration(sc.Client.ConnectTimeout+2) * time.Second)
				continue
			}
			// lose the connection (if any) before the next attempt
			if a.conn != nil && !a.conn.Pipe.Cli.IsClosed() && a.conn.Pipe.Cli.rTerm == nil {
				a.conn.Pipe.Cli.CutAt = a.conn.End.TotalWritten
				a.conn.Pipe.Cli.CutErr = io.EOF
				if err == nil {
					e.WaitUntilFor("lost", time.Minute, func() bool { return countState(w.Events, xmpp.StateDisconnected) > 0 })
				}
			}
			e.Sleep(time.Duration(sc.Client.ConnectTimeout+2) * time.Second)
		}
		e.Sleep(time.Duration(sc.Client.ConnectTimeout+5) * time.Second)
	})

	reached := false
	info := RunInfo{Scenario: sc}
	if stale {
		info.Triggers = append(info.Triggers, "tls-state-stale-across-reconnect")
	}
	if e.Stuck != "" {
		e.Violate("C04", "hang", "%s", e.Stuck)
	}
	for _, p := range e.Panics {
		e.Violate("C04", "panic:"+panicSite(p), "%s: %s", p.Where, p.Value)
	}
	sensitive := func(k string) bool {
		return k == "auth" || k == "bind" || k == "resume" || k == "session" || k == "enable" || strings.HasPrefix(k, "stanza:")
	}
	for i, a := range atts {
		if a.conn == nil {
			continue
		}
		scr := sc.Conns[i].Server
		if len(a.conn.Recv) > 0 {
			reached = true
		}
		// A resumed TLS session shows no certificate: it stands on the certificate of the full
		// handshake it descends from - one of the earlier ones of this client (which one depends on
		// ticket bookkeeping inside crypto/tls; if any of them was acceptable nothing is asserted).
		certOK := certAccepted(sc.Client, scr.Cert)
		if a.conn.TLSResumed {
			certOK = false
			for j := 0; j < i; j++ {
				if c := atts[j].conn; c != nil && c.HandshakeTLS == "ok" && !c.TLSResumed && certAccepted(sc.Client, sc.Conns[j].Server.Cert) {
					certOK = true
				}
			}
			e.Probe("c04.tls_session_resumed")
		}
		closedSeen := false
		for _, r := range a.conn.Recv {
			k := classifyReq(r)
			if r.Item.Kind == ItemClose {
				closedSeen = true
			} else if closedSeen && r.Item.Elem != nil && (r.Item.Elem.Local == "iq" || r.Item.Elem.Local == "message" || r.Item.Elem.Local == "presence") {
				// written after the client's own closing tag (the splitter sees it as a new root): still a stanza on this connection
				k = "stanza:" + r.Item.Elem.Local
			}
			if !sensitive(k) {
				continue
			}
			if !r.TLS && !sc.Client.Insecure {
				e.Violate("C04", "cleartext:"+kindOnly(k), "connection #%d: client wrote %s in clear text although insecure connections are not allowed (server: starttls=%d reply=%d)", i, r.Item.Elem.Short(), scr.StartTLS, scr.TLSReply)
				break
			}
			if r.TLS && !certOK {
				e.Violate("C04", fmt.Sprintf("unverified-tls:%s:cert=%d", kindOnly(k), scr.Cert), "connection #%d: client wrote %s over TLS although the certificate (kind %d) does not validate for %s (tls config %d, ServerName %q)", i, r.Item.Elem.Short(), scr.Cert, SimDomain, sc.Client.TLS, sc.Client.ServerName)
				break
			}
		}
		// Connect must fail whenever TLS cannot be established and verified and insecure is off
		tlsPossible := scr.StartTLS != TLSNone && scr.TLSReply == TLSProceed && certOK
		if !tlsPossible && !sc.Client.Insecure && a.err == nil {
			e.Violate("C04", "connected-without-tls", "connection #%d: %s returned nil although no verified TLS session was possible and insecure is off", i, sc.Conns[i].Via)
		}
		if scr.StartTLS != TLSNone && scr.TLSReply == TLSProceed && !certOK && a.err == nil {
			e.Violate("C04", "connected-with-bad-certificate", "connection #%d: %s returned nil although the certificate does not validate", i, sc.Conns[i].Via)
		}
		if a.conn.TLS {
			e.Probe("c04.tls_established")
		}
		if scr.StartTLS != TLSNone && scr.TLSReply == TLSProceed && !certOK {
			e.Probe(fmt.Sprintf("c04.bad_cert_%d", scr.Cert))
		}
	}
	info.Nontrivial = reached
	return info
}

func kindOnly(k string) string {
	if i := strings.IndexByte(k, ':'); i >= 0 {
		return k[:i]
	}
	return k
}

// runC04WS: the configured address names a WebSocket endpoint that is reachable in clear text
// only (ws:, in any spelling of the scheme). Unless Insecure is set nothing sensitive may be
// written to it - whichever transport the address selects.
func runC04WS(e *Engine, g G, sc *c04Scenario) RunInfo {
	scheme := []string{"ws", "ws", "WS", "Ws", "wS"}[g.N("scheme", 5)]
	sc.WSAddr = scheme + SimWSAddr[2:]
	sc.Client.Address = sc.WSAddr
	sc.Client.WebSocket = true
	var ws *WSServer
	var err error
	created := false
	e.Run(func() {
		ws = NewWSServer(e)
		defer ws.Stop()
		w := NewCW(e, sc.Client, sharedCerts())
		w.CatchAll()
		if cerr := w.Create(); cerr != nil {
			return
		}
		created = true
		err, _ = e.Call("Connect", w.Client.Connect)
		e.Sleep(time.Duration(sc.Client.ConnectTimeout+5) * time.Second)
		if err == nil {
			e.Call("Disconnect", w.Client.Disconnect)
			e.Sleep(time.Duration(sc.Client.ConnectTimeout+5) * time.Second)
		}
	})
	info := RunInfo{Scenario: sc, Nontrivial: created && e.Net.Dials > 0}
	if e.Stuck != "" {
		e.Violate("C04", "hang", "%s", e.Stuck)
	}
	for _, p := range e.Panics {
		e.Violate("C04", "panic:"+panicSite(p), "%s: %s", p.Where, p.Value)
	}
	if !created {
		return info
	}
	e.Probe("c04.websocket_address")
	for _, c := range ws.Conns {
		for _, el := range c.Recv {
			k := ""
			switch {
			case el.Is(nsSASL, "auth"):
				k = "auth"
			case el.Local == "iq" || el.Local == "message" || el.Local == "presence":
				k = "stanza:" + el.Local
			case el.Is(nsSM, "enable") || el.Is(nsSM, "resume"):
				k = el.Local
			}
			if k != "" && !sc.Client.Insecure {
				e.Violate("C04", "cleartext-websocket:"+k, "Insecure=false, address %q: <%s> was written on a WebSocket connection without TLS (Connect returned %v)", sc.WSAddr, k, err)
				return info
			}
		}
	}
	if !sc.Client.Insecure && err == nil {
		e.Violate("C04", "connected-without-tls", "Insecure=false, address %q reachable only in clear text: Connect succeeded", sc.WSAddr)
	}
	if sc.Client.Insecure && scheme == "ws" && err != nil {
		e.Violate("C04", "insecure-mode-refused", "Insecure=true, address %q: Connect failed: %v", sc.WSAddr, err)
	}
	return info
}
