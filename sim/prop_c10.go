package sim

import (
	"fmt"
	"io"
	"strings"
	"time"

	xmpp "gosrc.io/xmpp"

	"gosrc.io/xmpp/stanza"
)

// C10 — stream management: sent stanzas are held until acknowledged and
// retransmitted in order.
//
// Reference model (what a real XEP-0198 peer counts): every stanza the client
// transmits on the stream-managed session occupies the next position 1,2,3…
// on the wire (the initial presence is position 1; <r/> and <a/> occupy
// none). A stanza accepted by Send/SendRaw is held until a transmission of it
// has a position <= the largest h seen. On <a h=N/>: everything with a
// transmission at a position <= N is discarded; if anything remains it is
// transmitted again in its original order followed by one <r/>; if nothing
// remains nothing is written.

type c10Step struct {
	Op    string `json:"op"` // send | ack | r
	Tasks int    `json:"tasks,omitempty"`
	N     int    `json:"n,omitempty"`
	API   string `json:"api,omitempty"`
	HMode string `json:"h_mode,omitempty"` // real | zero | partial | all | more | repeat | less
	HArg  int    `json:"h_arg,omitempty"`
}

type c10Scenario struct {
	AfterRefusedResume  int        `json:"previous_session_stanzas_then_refused_resume"` // >0: a previous stream-managed session held this many stanzas, was lost, and its resumption was refused
	Client              ClientOpts `json:"client"`
	Steps               []c10Step  `json:"steps"`
	Seg                 int        `json:"segmentation"`
	LatencyNs           int64      `json:"latency_ns"`
	ResumeDropFirst     bool       `json:"first_resumption_attempt_loses_its_connection,omitempty"` // with loss_and_resumption_at_the_end: the connection of the first attempt breaks while the answer to <resume/> is awaited
	ResumeAtEnd         bool       `json:"loss_and_resumption_at_the_end,omitempty"`                // the session is lost and resumed; <resumed/> repeats the last acknowledged h
	ResumeBreaksAtWrite int        `json:"connection_breaks_at_the_kth_write_of_the_retransmission_after_resumed,omitempty"`
	ResumeFailEarly     string     `json:"an_attempt_fails_before_resume_is_sent,omitempty"`
	Twins               bool       `json:"two_identical_stanzas_in_a_row_first,omitempty"`
	RawExtras           bool       `json:"raw_white_space_and_two_stanza_strings,omitempty"` // among the sends: SendRaw of white space (not a stanza) and of a string with two stanzas (two stanzas)
}

func init() {
	register(&PropDef{
		ID:    "C10",
		Rule:  "scenario = a sequence of phases on a stream-managed session: bursts of Send/SendRaw from 1-3 concurrent sender tasks (stanzas and SM requests), server <r/>, and server acknowledgements with h = what a real server counted / 0 / partial / everything / more than sent / repeated / smaller than before; non-trivial = at least one acknowledgement was processed while stanzas were held; distinct = distinct (scenario hash, schedule hash)",
		Real:  []string{"Client.Send / SendRaw SM bookkeeping", "Router.route on <a/> and SendMissingStz", "stanza.UnAckQueue", "recv loop (answers to <r/>)"},
		Stub:  []string{"TCP (simnet)", "XMPP server (scripted model counting stanzas like XEP-0198 says)", "clock (synctest)", "goroutine scheduling (token scheduler)", "sync.RWMutex (equivalent shim)"},
		Run:   runC10,
		Reach: []string{"c10.resumed_at_end", "c10.honest_server_after_resumption", "c10.new_session_after_refused_resume", "c10.raw_sm_element_sent"},
	})
}

func runC10(e *Engine, g G, o RunOpt) RunInfo {
	sc := &c10Scenario{Client: DefaultClientOpts()}
	sc.Client.SM = true
	sc.Twins = g.Pct("twins", 20)
	failedEarly := false
	sc.RawExtras = !o.Avoiding("raw-string-not-one-stanza") && g.Pct("raw-extras", 35)
	sc.Client.SMResume = true
	if g.Pct("after-refused-resume", 20) {
		sc.AfterRefusedResume = g.Range("old-held", 1, 4)
	}
	sc.ResumeAtEnd = g.Pct("resume-at-end", 35)
	sc.ResumeDropFirst = sc.ResumeAtEnd && g.Pct("resume-drop-first", 40)
	if sc.ResumeAtEnd && !sc.ResumeDropFirst && g.Pct("resume-breaks-at-write", 35) {
		sc.ResumeBreaksAtWrite = g.Range("resume-breaks-at-write-k", 1, 6)
	} else if sc.ResumeAtEnd && !sc.ResumeDropFirst && g.Pct("resume-fail-early", 50) {
		sc.ResumeFailEarly = []string{"auth-close", "header-close", "header-after-auth-close"}[g.N("resume-fail-early-at", 3)]
	}
	ns := g.Range("nsteps", 2, 8)
	for i := 0; i < ns; i++ {
		switch g.Weighted("step", 5, 5, 1, 2, 1) {
		case 4:
			st := c10Step{Op: "ack-writefail", HMode: []string{"zero", "partial"}[g.N("hmode2", 2)], HArg: g.N("harg", 1000), N: g.Range("failj", 1, 6)}
			sc.Steps = append(sc.Steps, st)
		case 3:
			st := c10Step{Op: "race", Tasks: g.Range("tasks", 1, 3), N: g.Range("n", 2, 5), API: "mixed"}
			st.HArg = g.N("harg", 1000)
			sc.Steps = append(sc.Steps, st)
		case 0:
			st := c10Step{Op: "send", Tasks: g.Range("tasks", 1, 3), N: g.Range("n", 1, 4)}
			st.API = []string{"mixed", "Send", "SendRaw"}[g.N("api", 3)]
			sc.Steps = append(sc.Steps, st)
		case 1:
			st := c10Step{Op: "ack"}
			st.HMode = []string{"real", "zero", "partial", "all", "more", "repeat", "less"}[g.Weighted("hmode", 5, 2, 4, 2, 1, 2, 1)]
			st.HArg = g.N("harg", 1000)
			sc.Steps = append(sc.Steps, st)
		default:
			sc.Steps = append(sc.Steps, c10Step{Op: "r"})
		}
	}
	sc.Seg, sc.LatencyNs = netModes(g, e)
	if sc.LatencyNs > int64(10*time.Millisecond) {
		sc.LatencyNs = int64(3*time.Millisecond) + 1
		e.Net.Latency = time.Duration(sc.LatencyNs)
	}
	script := DefaultNeg()
	script.ResumeOne = g.Pct("resume-spelled-1", 25)
	script.SM = true

	established := false
	var s *Sess
	ackedWithHeld := false
	accepted := map[string]int{} // payload -> order of acceptance (calls that returned nil)
	var acceptOrder []string
	nAccepted := 0
	maxH := 0
	lastH := 0
	tasksDone := 0
	sentH := 0
	raced := false

	// wire view: stanzas received by the server after <enabled/>, in order
	wire := func() []string {
		var out []string
		enabled := false
		for _, r := range s.Conn.Recv {
			if r.Item.Kind != ItemElem {
				continue
			}
			el := r.Item.Elem
			if el.Is(nsSM, "enable") {
				enabled = true
				continue
			}
			if !enabled {
				continue
			}
			if el.Local == "message" || el.Local == "presence" || el.Local == "iq" {
				out = append(out, string(r.Item.Raw))
			}
		}
		return out
	}
	// everything (stanzas and SM elements) the server received after index k
	tail := func(k int) []string {
		var out []string
		for _, r := range s.Conn.Recv[k:] {
			if r.Item.Kind == ItemElem {
				if r.Item.Elem.Space == nsSM {
					out = append(out, "<"+r.Item.Elem.Local+"/>")
				} else {
					out = append(out, string(r.Item.Raw))
				}
			}
		}
		return out
	}
	// model: held stanzas in order of their latest wire position
	heldModel := func() []string {
		w := wire()
		latest := map[string]int{}
		for i, raw := range w {
			latest[raw] = i + 1
		}
		type hp struct {
			raw string
			pos int
		}
		var hs []hp
		for raw := range accepted {
			p, onWire := latest[raw]
			if !onWire {
				continue // accepted but never seen whole: cannot happen without faults
			}
			if p > maxH {
				hs = append(hs, hp{raw, p})
			}
		}
		// the initial presence is a stanza of the session too, if the client holds it
		for i := 0; i < len(hs); i++ {
			for j := i + 1; j < len(hs); j++ {
				if hs[j].pos < hs[i].pos {
					hs[i], hs[j] = hs[j], hs[i]
				}
			}
		}
		var out []string
		for _, h := range hs {
			out = append(out, h.raw)
		}
		return out
	}
	queue := func() ([]string, []int) {
		q := s.W.Client.Session.SMState.UnAckQueue
		var raws []string
		var ids []int
		if q == nil {
			return nil, nil
		}
		for _, u := range q.Uslice {
			// what is held is compared stanza by stanza: a raw string may carry several
			parts := []string{u.Stz}
			if its, err := splitAllFramed([]byte(u.Stz)); err == nil {
				var els []string
				for _, it := range its {
					if it.Kind == ItemElem {
						els = append(els, string(it.Raw))
					}
				}
				if len(els) > 1 {
					parts = els
				}
			}
			for range parts[1:] {
				ids = append(ids, u.Id-1) // (never compared: only the last part carries the entry's number)
			}
			raws = append(raws, parts...)
			ids = append(ids, u.Id)
		}
		return raws, ids
	}
	entryIds := func() []int {
		var ids []int
		if q := s.W.Client.Session.SMState.UnAckQueue; q != nil {
			for _, u := range q.Uslice {
				ids = append(ids, u.Id)
			}
		}
		return ids
	}
	checkQueue := func(when string) {
		raws, _ := queue()
		ids := entryIds()
		for i := 1; i < len(ids); i++ {
			if ids[i] <= ids[i-1] {
				e.Violate("C10", "sequence-numbers-not-increasing", "%s: queue sequence numbers %v", when, ids)
				break
			}
		}
		for _, r := range raws {
			if isSMElementRaw(r) {
				e.Violate("C10", "sm-element-held", "%s: a stream-management element is held for retransmission: %s", when, clip(r, 120))
				return
			}
			if strings.TrimSpace(r) == "" {
				e.Violate("C10", "whitespace-held", "%s: white space sent through SendRaw (a keepalive, not a stanza: no server counts it) is held and numbered like a stanza: %q", when, r)
				return
			}
		}
		want := heldModel()
		got := raws
		w := wire()
		if strings.Join(got, "\x00") != strings.Join(want, "\x00") {
			e.Violate("C10", classifyHeldDiff(got, want), "%s (largest h seen %d): held queue %s, model %s; wire: %s", when, maxH, shortStz(got), shortStz(want), shortStz(w))
		}
	}

	// after acknowledgements raced with senders only safety is asserted:
	// nothing that cannot have been acknowledged is dropped, nothing is held
	// twice, numbering stays increasing, no SM element is held
	checkRace := func(when string) {
		raws, _ := queue()
		ids := entryIds()
		for i := 1; i < len(ids); i++ {
			if ids[i] <= ids[i-1] {
				e.Violate("C10", "sequence-numbers-not-increasing", "%s: queue sequence numbers %v", when, ids)
				break
			}
		}
		inQ := map[string]int{}
		for _, r := range raws {
			inQ[r]++
			if isSMElementRaw(r) {
				e.Violate("C10", "sm-element-held", "%s: %s", when, clip(r, 120))
			}
		}
		w := wire()
		first := map[string]int{}
		for i, raw := range w {
			if _, ok := first[raw]; !ok {
				first[raw] = i + 1
			}
		}
		latest := map[string]int{}
		for i, raw := range w {
			latest[raw] = i + 1
		}
		for _, r := range raws {
			// every acknowledgement has been processed by now: what the server had received when it
			// computed the largest h is acknowledged, whichever goroutine held the queue at that moment
			if p, ok := latest[r]; ok && p <= sentH {
				e.Violate("C10", "acknowledged-stanza-still-held", "%s: %s was last transmitted at position %d, the server has acknowledged %d stanzas, yet it is still held", when, shortStz([]string{r}), p, sentH)
				break
			}
		}
		for raw := range accepted {
			if inQ[raw] > 1 {
				e.Violate("C10", "held-twice", "%s: %s is held %d times", when, shortStz([]string{raw}), inQ[raw])
			}
			if p, ok := first[raw]; ok && p > sentH && p > maxH && inQ[raw] == 0 {
				e.Violate("C10", "unacked-stanza-dropped", "%s: %s was first transmitted at position %d, the largest h ever sent is %d, but it is no longer held", when, shortStz([]string{raw}), p, sentH)
			}
		}
	}

	e.Run(func() {
		var ok bool
		refuse := script
		refuse.Resume = ResumeFailed
		refuse.SMId = "sm-2"
		s, ok = StartClient(e, sc.Client, []NegScript{script, refuse}, func(w *CW, srv *Server) { w.CatchAll() })
		if !ok || !s.Conn.Enabled {
			return
		}
		if sc.AfterRefusedResume > 0 {
			// a first session leaves held stanzas behind; it is lost; the server refuses to resume it:
			// the new stream-managed session must start from scratch
			for i := 0; i < sc.AfterRefusedResume; i++ {
				id := fmt.Sprintf("old%d", i+1)
				e.Call("SendRaw "+id, func() error {
					return s.W.Client.SendRaw(fmt.Sprintf("<message id='%s' to='peer@%s'><body>of the lost session</body></message>", id, SimDomain))
				})
			}
			e.Sleep(100 * time.Millisecond)
			s.Cli.CutAt = s.Conn.End.TotalWritten
			s.Cli.CutErr = io.EOF
			if e.WaitUntilFor("lost", time.Minute, func() bool { return countState(s.W.Events, xmpp.StateDisconnected) > 0 }) {
				return
			}
			e.Sleep(time.Second)
			err, _ := e.Call("Resume", s.W.Client.Resume)
			if err != nil || len(s.Srv.Conns) != 2 || !s.Srv.Conns[1].Enabled {
				e.Logf("c10", "could not set up the second session: %v", err)
				return
			}
			s.Conn = s.Srv.Conns[1]
			s.Cli = s.Conn.Pipe.Cli
			e.Sleep(100 * time.Millisecond)
			e.Probe("c10.new_session_after_refused_resume")
		}
		established = true
		conn := s.Conn
		cli := s.W.Client
		if raws, _ := queue(); len(raws) == 1 && raws[0] == "<presence/>" {
			// this client holds its initial presence like any stanza of the session
			nAccepted++
			accepted["<presence/>"] = nAccepted
			e.Probe("c10.initial_presence_held")
		}
		if sc.Twins {
			// Two byte-identical stanzas in a row (two pings, two presences) are two stanzas: both are
			// held, both are counted. Played first and acknowledged in full before the generic history
			// goes on, so that the payload-keyed model below never sees a held duplicate.
			twin := "<iq id='ping' type='get'><ping xmlns='urn:xmpp:ping'/></iq>"
			if sc.Steps != nil && len(sc.Steps)%2 == 1 {
				twin = "<presence/>"
			}
			last := fmt.Sprintf("<message id='after-twins' to='peer@%s'><body>last</body></message>", SimDomain)
			for i, raw := range []string{twin, twin, last} {
				raw := raw
				if err, _ := e.Call(fmt.Sprintf("SendRaw twin#%d", i), func() error { return cli.SendRaw(raw) }); err == nil {
					nAccepted++
					accepted[raw] = nAccepted
				}
			}
			e.Sleep(time.Second)
			w := wire()
			if raws, _ := queue(); len(w) >= 3 && strings.Join(raws, "\x00") != strings.Join(w, "\x00") {
				e.Violate("C10", "identical-stanza-not-held", "sent in a row: %s; on the wire since <enabled/>: %s; held: %s", shortStz([]string{twin, twin, last}), shortStz(w), shortStz(raws))
			}
			if len(w) >= 3 && len(e.Violations) == 0 {
				// the server has handled everything up to the first twin
				h := len(w) - 2
				before := len(conn.Recv)
				conn.Send(fmt.Sprintf("<a xmlns='%s' h='%d'/>", nsSM, h))
				maxH, lastH, sentH = h, h, h
				e.Sleep(2 * time.Second)
				want := []string{twin, last, "<r/>"}
				if got := tail(before); strings.Join(got, "\x00") != strings.Join(want, "\x00") {
					e.Violate("C10", "retransmission-wrong:identical-stanzas", "two identical stanzas and a third were sent, <a h=%d/> covers the first: the server received %s, expected %s", h, shortStz(got), shortStz(want))
				}
				if raws, _ := queue(); strings.Join(raws, "\x00") != strings.Join(want[:2], "\x00") {
					e.Violate("C10", "identical-stanza-not-held", "after <a h=%d/> covering the first of two identical stanzas: held %s, expected %s", h, shortStz(raws), shortStz(want[:2]))
				}
				h = len(wire())
				conn.Send(fmt.Sprintf("<a xmlns='%s' h='%d'/>", nsSM, h))
				maxH, lastH, sentH = h, h, h
				e.Sleep(2 * time.Second)
				if raws, _ := queue(); len(raws) != 0 {
					e.Violate("C10", "acknowledged-stanza-still-held", "after <a h=%d/> covering everything sent (identical stanzas among it): still held %s", h, shortStz(raws))
				}
				e.Probe("c10.identical_stanzas_in_a_row")
			}
		}
		n := 0
		for si, st := range sc.Steps {
			switch st.Op {
			case "send", "race":
				tasksDone = 0
				if st.Op == "race" {
					// acknowledgements arrive while the senders are still sending
					e.Go(fmt.Sprintf("acker%d", si), func() {
						for k := 0; k < 3; k++ {
							e.Sleep(time.Duration(1+st.HArg%3) * time.Millisecond)
							h := len(wire())
							if k == 1 && h > 0 {
								h = st.HArg % h
							}
							if h > sentH {
								sentH = h
							}
							conn.Send(fmt.Sprintf("<a xmlns='%s' h='%d'/>", nsSM, h))
						}
					})
				}
				for t := 0; t < st.Tasks; t++ {
					t := t
					e.Go(fmt.Sprintf("sender%d.%d", si, t), func() {
						defer func() { tasksDone++ }()
						for i := 0; i < st.N; i++ {
							n++
							id := fmt.Sprintf("m%d", n)
							msg := stanza.Message{Attrs: stanza.Attrs{Id: id, To: "peer@" + SimDomain}, Body: "held " + id}
							raw := fmt.Sprintf("<message id='%s' to='peer@%s'><body>raw %s</body></message>", id, SimDomain, id)
							if n%5 == 4 {
								// a stanza is a stanza whatever it carries - also an element of the stream-management namespace
								raw = fmt.Sprintf("<message id='%s' to='peer@%s'><body>raw %s</body><r xmlns='%s'/></message>", id, SimDomain, id, nsSM)
							}
							api := st.API
							if api == "mixed" {
								api = []string{"Send", "SendRaw"}[n%2]
							}
							second := ""
							if sc.RawExtras && n%7 == 6 {
								// an application keepalive: white space is not a stanza, no server counts it
								e.Call("SendRaw white space", func() error { return cli.SendRaw([]string{" ", "\n", " \t "}[n%3]) })
								e.Probe("c10.raw_whitespace_sent")
							}
							if sc.RawExtras && n%9 == 5 {
								// two stanzas in one raw string are two stanzas: the server counts both
								api = "SendRaw"
								second = fmt.Sprintf("<message id='%sb' to='peer@%s'><body>second of a pair</body></message>", id, SimDomain)
								e.Probe("c10.raw_string_with_two_stanzas")
							}
							var payload string
							var err error
							if api == "Send" {
								b, _ := xmlMarshal(msg)
								payload = string(b)
								err, _ = e.Call("Send "+id, func() error { return cli.Send(msg) })
							} else {
								payload = raw
								err, _ = e.Call("SendRaw "+id, func() error { return cli.SendRaw(raw + second) })
							}
							if err == nil {
								nAccepted++
								accepted[payload] = nAccepted
								acceptOrder = append(acceptOrder, payload)
								if second != "" {
									nAccepted++
									accepted[second] = nAccepted
									acceptOrder = append(acceptOrder, second)
								}
							}
							if st.Op == "race" {
								e.Sleep(time.Millisecond)
							}
							if i%2 == 1 {
								// an application may also ask for an acknowledgement
								if n%4 == 3 {
									// ... as a raw element too: still a stream-management element, never held or counted
									e.Call("SendRaw <r/>", func() error { return cli.SendRaw("<r xmlns='" + nsSM + "'/>") })
									e.Probe("c10.raw_sm_element_sent")
								} else {
									e.Call("Send <r/>", func() error { return cli.Send(stanza.SMRequest{}) })
								}
							}
						}
					})
				}
				e.WaitUntilFor("senders", time.Minute, func() bool { return tasksDone == st.Tasks })
				e.Sleep(time.Second)
				if st.Op == "race" {
					checkRace(fmt.Sprintf("after racing sends and acknowledgements in step #%d", si))
					raced = true
				} else if !raced {
					checkQueue(fmt.Sprintf("after send phase #%d", si))
				}
			case "r":
				conn.Send("<r xmlns='" + nsSM + "'/>")
				e.Sleep(time.Second)
				if raced {
					continue
				}
				checkQueue(fmt.Sprintf("after a server <r/> in step #%d", si))
			case "ack-writefail":
				// the connection breaks in the middle of the retransmission: whatever
				// was not acknowledged must still be held, once
				if raced {
					continue
				}
				w := wire()
				h := 0
				if st.HMode == "partial" && len(w) > 0 {
					h = st.HArg % (len(w) + 1)
				}
				eff := h
				if eff > len(w) {
					eff = len(w)
				}
				oldMax := maxH
				if eff > maxH {
					maxH = eff
				}
				want := heldModel()
				if len(want) == 0 {
					maxH = oldMax // nothing would be retransmitted: skip this step
					continue
				}
				ccli := conn.Pipe.Cli
				ccli.FailWriteAt = ccli.Writes + 1 + (st.N-1)%len(want)
				conn.Send(fmt.Sprintf("<a xmlns='%s' h='%d'/>", nsSM, h))
				e.Sleep(2 * time.Second)
				raws, ids := queue()
				for i := 1; i < len(ids); i++ {
					if ids[i] <= ids[i-1] {
						e.Violate("C10", "sequence-numbers-not-increasing", "after a failed retransmission: %v", ids)
					}
				}
				if strings.Join(raws, "\x00") != strings.Join(want, "\x00") {
					e.Violate("C10", classifyHeldDiff(raws, want)+":write-failure", "step #%d: <a h=%d/> with the socket failing at retransmission write #%d: held %s, expected %s", si, h, 1+(st.N-1)%len(want), shortStz(raws), shortStz(want))
				}
				e.Probe("c10.retransmission_write_failed")
				return
			case "ack":
				if raced {
					continue
				}
				w := wire()
				h := 0
				switch st.HMode {
				case "real", "all":
					h = len(w)
				case "zero":
					h = 0
				case "partial":
					if len(w) > 0 {
						h = st.HArg % (len(w) + 1)
					}
				case "more":
					h = len(w) + 1 + st.HArg%5
				case "repeat":
					h = lastH
				case "less":
					if lastH > 0 {
						h = st.HArg % lastH
					}
				}
				heldBefore := heldModel()
				// an acknowledgement can only cover what was transmitted before it
				eff := h
				if eff > len(w) {
					eff = len(w)
				}
				if eff > maxH {
					maxH = eff
				}
				lastH = h
				expectResend := heldModel() // held after discarding up to max h
				if len(heldBefore) > 0 {
					ackedWithHeld = true
				}
				before := len(conn.Recv)
				conn.Send(fmt.Sprintf("<a xmlns='%s' h='%d'/>", nsSM, h))
				e.Sleep(2 * time.Second)
				got := tail(before)
				var want []string
				if len(expectResend) > 0 {
					want = append(append(want, expectResend...), "<r/>")
				}
				if strings.Join(got, "\x00") != strings.Join(want, "\x00") {
					cls := "retransmission-wrong"
					switch {
					case len(want) == 0:
						cls = "retransmission-unneeded"
					case len(got) == 0:
						cls = "retransmission-missing"
					case len(got) > 0 && got[len(got)-1] != "<r/>":
						cls = "retransmission-without-request"
					}
					e.Violate("C10", cls, "step #%d: after <a h=%d/> (held before: %s) the server received %s, expected %s", si, h, shortStz(heldBefore), shortStz(got), shortStz(want))
				}
				checkQueue(fmt.Sprintf("after <a h=%d/> in step #%d", h, si))
			}
			if len(e.Violations) > 0 {
				break
			}
		}
		if sc.ResumeAtEnd && len(e.Violations) == 0 && !raced {
			// The connection is lost and the session resumed. The server's <resumed/> carries the h it
			// last acknowledged: nothing new is acknowledged by it, so whatever was held stays held.
			want := heldModel()
			h := maxH
			if n := len(wire()); h > n {
				h = n
			}
			okScript := script
			okScript.ResumedH = h
			for len(s.Srv.Scripts) <= len(s.Srv.Conns) {
				s.Srv.Scripts = append(s.Srv.Scripts, okScript)
			}
			s.Srv.Scripts[len(s.Srv.Conns)] = okScript
			nd := countState(s.W.Events, xmpp.StateDisconnected)
			s.Cli.CutAt = s.Conn.End.TotalWritten
			s.Cli.CutErr = io.EOF
			if !e.WaitUntilFor("lost-at-end", time.Minute, func() bool { return countState(s.W.Events, xmpp.StateDisconnected) > nd }) {
				e.Sleep(time.Second)
				if sc.ResumeDropFirst {
					// the first attempt's connection breaks while the answer to <resume/> is awaited: the
					// server has refused nothing, and nothing was acknowledged
					dropScript := okScript
					dropScript.Resume = ResumeClose
					s.Srv.Scripts[len(s.Srv.Conns)] = dropScript
					e.Call("Resume (connection breaks)", s.W.Client.Resume)
					e.Sleep(time.Duration(sc.Client.ConnectTimeout+2) * time.Second)
					for len(s.Srv.Scripts) <= len(s.Srv.Conns) {
						s.Srv.Scripts = append(s.Srv.Scripts, okScript)
					}
					s.Srv.Scripts[len(s.Srv.Conns)] = okScript
					e.Probe("c10.resumption_attempt_lost_its_connection")
				}
				if sc.ResumeFailEarly != "" {
					// an attempt that fails before <resume/> is even sent (the server hangs up during the
					// negotiation): nothing was refused, nothing acknowledged - what is held stays held and
					// the next attempt resumes
					bad := okScript
					switch sc.ResumeFailEarly {
					case "auth-close":
						bad.AuthReply = AuthClose
					case "header-close":
						bad.Header = HdrClose
					default:
						bad.Header3 = HdrClose
					}
					s.Srv.Scripts[len(s.Srv.Conns)] = bad
					ferr, _ := e.Call("Resume (server hangs up at "+sc.ResumeFailEarly+")", s.W.Client.Resume)
					e.Sleep(time.Duration(sc.Client.ConnectTimeout+2) * time.Second)
					for len(s.Srv.Scripts) <= len(s.Srv.Conns) {
						s.Srv.Scripts = append(s.Srv.Scripts, okScript)
					}
					s.Srv.Scripts[len(s.Srv.Conns)] = okScript
					if ferr != nil {
						failedEarly = true
						e.Probe("c10.attempt_failed_before_resume")
					}
				}
				seenEarlier := map[string]bool{}
				if sc.ResumeBreaksAtWrite > 0 && len(want) > 0 {
					// The server confirms the resumption; the connection breaks while the held stanzas are being
					// sent again. What had not been acknowledged is still not acknowledged: it stays held, and the
					// next resumption - to a server that has counted what it did receive - delivers the rest.
					brk := okScript
					brk.FailWriteAfterResumed = 1 + (sc.ResumeBreaksAtWrite-1)%len(want)
					bi := len(s.Srv.Conns)
					s.Srv.Scripts[bi] = brk
					e.Call("Resume (connection breaks during the retransmission)", s.W.Client.Resume)
					e.Sleep(time.Duration(sc.Client.ConnectTimeout+2) * time.Second)
					if len(s.Srv.Conns) == bi+1 && s.Srv.Conns[bi].Established == "resumed" {
						for _, r := range s.Srv.Conns[bi].Elements() {
							el := r.Item.Elem
							if r.Phase >= 2 && (el.Local == "message" || el.Local == "presence" || el.Local == "iq") && el.Space != nsSM {
								seenEarlier[string(r.Item.Raw)] = true
							}
						}
						h += len(seenEarlier)
						e.Probe("c10.connection_broke_during_retransmission")
					}
					okScript.ResumedH = h
					for len(s.Srv.Scripts) <= len(s.Srv.Conns) {
						s.Srv.Scripts = append(s.Srv.Scripts, okScript)
					}
					s.Srv.Scripts[len(s.Srv.Conns)] = okScript
					var still []string
					for _, raw := range want {
						if !seenEarlier[raw] {
							still = append(still, raw)
						}
					}
					want = still
				}
				nc := len(s.Srv.Conns)
				err, _ := e.Call("Resume", s.W.Client.Resume)
				if failedEarly && err == nil && len(s.Srv.Conns) == nc+1 && s.Srv.Conns[nc].Established != "resumed" {
					got, _ := queue()
					e.Violate("C10", "held-stanzas-lost-by-failed-attempt", "a reconnection attempt failed before <resume/> was sent (%s); the next one, to a server that would have resumed the session, established %q; held before %s, now %s", sc.ResumeFailEarly, s.Srv.Conns[nc].Established, shortStz(want), shortStz(got))
				}
				// (C11 counts a connection closed in answer to <resume/> among the replies after which the
				// state is discarded: whether the held stanzas survive such an attempt is not asserted here)
				if err == nil && len(s.Srv.Conns) == nc+1 && s.Srv.Conns[nc].Established == "resumed" {
					e.Sleep(time.Second)
					got, _ := queue()
					if strings.Join(got, "\x00") != strings.Join(want, "\x00") {
						e.Violate("C10", "held-stanzas-changed-by-resumption", "<resumed h='%d'/> repeats what was acknowledged before the loss: held before %s, after the resumption %s", h, shortStz(want), shortStz(got))
					}
					e.Probe("c10.resumed_at_end")
					// From here on the server counts honestly: it had handled h stanzas when the connection was
					// lost, and it handles what it receives on the new connection. Every answer to an <r/> (and
					// one unsolicited acknowledgement to begin with) carries that count. What the server has
					// acknowledged that way is delivered: within a few rounds nothing may be held any more, and
					// nothing that was held may have been dropped without reaching the server.
					nconn := s.Srv.Conns[nc]
					stanzasOn := func() []string {
						var out []string
						for _, r := range nconn.Elements() {
							el := r.Item.Elem
							if r.Phase >= 2 && (el.Local == "message" || el.Local == "presence" || el.Local == "iq") && el.Space != nsSM {
								out = append(out, string(r.Item.Raw))
							}
						}
						return out
					}
					for round := 0; round < 6 && len(e.Violations) == 0; round++ {
						nconn.Send(fmt.Sprintf("<a xmlns='%s' h='%d'/>", nsSM, h+len(stanzasOn())))
						e.Sleep(2 * time.Second)
					}
					left, _ := queue()
					seen := map[string]bool{}
					for _, raw := range stanzasOn() {
						seen[raw] = true
					}
					for _, raw := range want {
						if !seen[raw] {
							e.Violate("C10", "unacked-stanza-never-sent-again-after-resumption", "held at the resumption (<resumed h='%d'/>): %s; the server has received %s on the new connection and acknowledged it, %s is still missing", h, shortStz(want), shortStz(stanzasOn()), shortStz([]string{raw}))
							break
						}
					}
					if len(left) != 0 && len(e.Violations) == 0 {
						e.Violate("C10", "held-for-ever-after-resumption", "the server acknowledged everything it received after <resumed h='%d'/> (%d stanzas, six rounds); still held: %s", h, len(stanzasOn()), shortStz(left))
					}
					e.Probe("c10.honest_server_after_resumption")
				}
			}
			return
		}
		// no deadlock: a final acknowledgement is still processed
		if len(e.Violations) == 0 {
			w := wire()
			maxH = len(w)
			conn.Send(fmt.Sprintf("<a xmlns='%s' h='%d'/>", nsSM, maxH+5))
			e.Sleep(2 * time.Second)
			if raws, _ := queue(); len(raws) != 0 {
				e.Violate("C10", "final-ack-not-processed", "after acknowledging everything (h=%d) %d stanzas are still held: %s (blocked tasks: %v)", maxH, len(raws), shortStz(raws), e.BlockedTasks())
			}
		}
	})
	info := RunInfo{Scenario: sc, Nontrivial: established && ackedWithHeld}
	if !established {
		e.Probe("precondition_failed")
		return info
	}
	if e.Stuck != "" {
		e.Violate("C10", "stuck", "%s", e.Stuck)
	}
	for _, p := range e.Panics {
		e.Violate("C10", "panic:"+panicSite(p), "%s: %s", p.Where, p.Value)
	}
	return info
}

func xmlMarshal(v interface{}) ([]byte, error) { return xmlMarshalImpl(v) }

func shortStz(list []string) string {
	var out []string
	for _, s := range list {
		if i := strings.Index(s, "id='"); i >= 0 {
			j := strings.IndexByte(s[i+4:], '\'')
			out = append(out, s[i+4:i+4+j])
		} else if i := strings.Index(s, "id=\""); i >= 0 {
			j := strings.IndexByte(s[i+4:], '"')
			out = append(out, s[i+4:i+4+j])
		} else {
			out = append(out, clip(s, 24))
		}
	}
	return "[" + strings.Join(out, " ") + "]"
}

func classifyHeldDiff(got, want []string) string {
	gs := map[string]int{}
	for _, g := range got {
		gs[g]++
	}
	ws := map[string]bool{}
	for _, w := range want {
		ws[w] = true
	}
	for g, n := range gs {
		if n > 1 {
			return "held-twice"
		}
		if !ws[g] {
			return "acked-stanza-still-held"
		}
	}
	for _, w := range want {
		if gs[w] == 0 {
			return "unacked-stanza-dropped"
		}
	}
	return "held-order"
}

// isSMElementRaw: is the raw string an <r/> or <a/> of XEP-0198 (as opposed to a stanza that merely
// carries such an element somewhere inside)?
func isSMElementRaw(raw string) bool {
	t := strings.TrimLeft(raw, " \t\r\n")
	for _, p := range []string{"<r ", "<r/", "<r>", "<a ", "<a/", "<a>"} {
		if strings.HasPrefix(t, p) {
			return strings.Contains(t, nsSM)
		}
	}
	return false
}
