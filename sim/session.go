package sim

import (
	"crypto/sha1"
	"encoding/hex"
	"fmt"
	"time"

	xmpp "gosrc.io/xmpp"
	"gosrc.io/xmpp/stanza"
)

// Sess bundles a server, a client world and the first established connection.
type Sess struct {
	e    *Engine
	Srv  *Server
	W    *CW
	Conn *SrvConn
	WS   *WSServer
	WSC  *WSConn
	Cli  *End
	Base int64 // server->client stream offset when the session was up and settled
}

// StartClient creates server and client and connects (on the calling driver
// task). ok is false if Connect failed (precondition of most scenarios).
func StartClient(e *Engine, o ClientOpts, scripts []NegScript, prep func(w *CW, s *Server)) (*Sess, bool) {
	s, ok := StartClientNoSettle(e, o, scripts, prep)
	if ok {
		e.Sleep(50 * time.Millisecond)
		s.Base = s.Conn.End.TotalWritten
	}
	return s, ok
}

// StartClientNoSettle is StartClient without the settling pause: it returns
// at the simulated instant Connect returned.
func StartClientNoSettle(e *Engine, o ClientOpts, scripts []NegScript, prep func(w *CW, s *Server)) (*Sess, bool) {
	srv := NewServer(e, SimDomain)
	srv.Certs = sharedCerts()
	srv.Scripts = scripts
	w := NewCW(e, o, sharedCerts())
	s := &Sess{e: e, Srv: srv, W: w}
	if prep != nil {
		prep(w, srv)
	}
	if err := w.Create(); err != nil {
		e.Logf("setup", "NewClient failed: %v", err)
		return s, false
	}
	err, _ := e.Call("Connect", w.Client.Connect)
	if err != nil || len(srv.Conns) == 0 {
		return s, false
	}
	s.Conn = srv.Conns[len(srv.Conns)-1]
	s.Cli = s.Conn.Pipe.Cli
	s.Base = s.Conn.End.TotalWritten
	return s, true
}

// SendChunks writes data to the client in writes of at most chunk bytes.
func (sc *SrvConn) SendChunks(data string, chunk int) {
	for len(data) > 0 {
		k := len(data)
		if k > chunk {
			k = chunk
		}
		sc.Send(data[:k])
		data = data[k:]
		sc.e.Yield("srv.more")
	}
}

// ---------------------------------------------------------------------------
// component world

type CompW struct {
	e        *Engine
	Opts     xmpp.ComponentOptions
	Router   *xmpp.Router
	Comp     *xmpp.Component
	Handled  []Handled
	Errors   []ErrRec
	Events   []EvRec
	Dawdle   int
	OnPacket func(s xmpp.Sender, p stanza.Packet)
	OnEvent  func(ev xmpp.Event) // the application's own reaction to an event (runs in the callback)
}

func NewCompW(e *Engine, secret string) *CompW {
	w := &CompW{e: e}
	w.Opts = xmpp.ComponentOptions{
		TransportConfiguration: xmpp.TransportConfiguration{Address: SimAddr, Domain: "comp." + SimDomain, ConnectTimeout: 15},
		Domain:                 "comp." + SimDomain,
		Secret:                 secret,
		Name:                   "sim component",
		Category:               "gateway",
		Type:                   "service",
	}
	w.Router = xmpp.NewRouter()
	return w
}

func (w *CompW) CatchAll() {
	h := xmpp.HandlerFunc(func(s xmpp.Sender, p stanza.Packet) {
		kind, id, typ := packetInfo(p)
		w.Handled = append(w.Handled, Handled{Seq: len(w.e.Log), At: w.e.Now(), Kind: kind, ID: id, Type: typ, From: packetFrom(p), Task: w.e.current})
		w.e.Logf("cb.handler", "%s id=%s type=%s from=%s", kind, id, typ, packetFrom(p))
		for i := 0; i < w.Dawdle; i++ {
			w.e.Yield("handler.dawdle")
		}
		if w.OnPacket != nil {
			w.OnPacket(s, p)
		}
	})
	// (the routes of a typical application in front of the catch-all, see CW.CatchAll)
	w.Router.NewRoute().IQNamespaces("jabber:iq:version", "http://jabber.org/protocol/disco#info").HandlerFunc(h)
	w.Router.NewRoute().Packet("message").StanzaType("chat").HandlerFunc(h)
	w.Router.NewRoute().HandlerFunc(h)
}

func (w *CompW) Create() error {
	c, err := xmpp.NewComponent(w.Opts, w.Router, func(err error) {
		w.Errors = append(w.Errors, ErrRec{Seq: len(w.e.Log), At: w.e.Now(), Err: err.Error()})
		w.e.Logf("cb.error", "%v", err)
	})
	if err != nil {
		return err
	}
	w.Comp = c
	c.SetHandler(func(ev xmpp.Event) error {
		st := xmpp.VerifEventState(ev)
		w.Events = append(w.Events, EvRec{Seq: len(w.e.Log), At: w.e.Now(), State: st, Desc: ev.Description + ev.StreamError, Task: w.e.current})
		w.e.Logf("cb.event", "state=%s %s", StateName(st), ev.StreamError)
		if w.OnEvent != nil {
			w.OnEvent(ev)
		}
		return nil
	})
	return nil
}

func handshakeDigest(id, secret string) string {
	h := sha1.Sum([]byte(id + secret))
	return hex.EncodeToString(h[:])
}

// StartComponent creates a component-mode server that accepts the right
// digest and connects the component.
func StartComponent(e *Engine, secret string, script NegScript, prep func(w *CompW, s *Server)) (*CompW, *Server, *SrvConn, bool) {
	srv := NewServer(e, "comp."+SimDomain)
	srv.Component = true
	srv.Scripts = []NegScript{script}
	srv.HandshakeOK = func(sc *SrvConn, digest string) string {
		if digest == handshakeDigest(script.StreamID, secret) {
			sc.establish("handshake")
			return "<handshake/>"
		}
		return fmt.Sprintf("<stream:error><not-authorized xmlns='%s'/></stream:error></stream:stream>", nsStreams)
	}
	w := NewCompW(e, secret)
	if prep != nil {
		prep(w, srv)
	}
	if err := w.Create(); err != nil {
		return w, srv, nil, false
	}
	err, _ := e.Call("Component.Connect", w.Comp.Connect)
	if err != nil || len(srv.Conns) == 0 {
		return w, srv, nil, false
	}
	e.Sleep(50 * time.Millisecond)
	return w, srv, srv.Conns[0], true
}

// StartClientWS is StartClientNoSettle over the WebSocket transport. The
// caller must defer s.WS.Stop().
func StartClientWS(e *Engine, o ClientOpts, sm bool, prep func(w *CW)) (*Sess, bool) {
	o.WebSocket = true
	o.Insecure = true
	ws := NewWSServer(e)
	ws.SM = sm
	w := NewCW(e, o, sharedCerts())
	s := &Sess{e: e, W: w, WS: ws}
	if prep != nil {
		prep(w)
	}
	if err := w.Create(); err != nil {
		return s, false
	}
	err, _ := e.Call("Connect", w.Client.Connect)
	if err != nil || len(ws.Conns) == 0 || !ws.Conns[0].Established || ws.Conns[0].Pipe == nil {
		return s, false
	}
	s.WSC = ws.Conns[0]
	s.Cli = s.WSC.Pipe.Cli
	s.Base = s.WSC.Pipe.Srv.TotalWritten
	return s, true
}

// SrvSend sends one top-level element to the client over whichever transport the session uses.
func (s *Sess) SrvSend(raw string) {
	if s.WSC != nil {
		s.WSC.Send(withClientNS(raw))
		return
	}
	s.Conn.Send(raw)
}

// SrvEnd is the server side of the session's connection.
func (s *Sess) SrvEnd() *End {
	if s.WSC != nil {
		return s.WSC.Pipe.Srv
	}
	return s.Conn.End
}

func (s *Sess) SrvDead() bool {
	if s.WSC != nil {
		return s.WSC.Dead
	}
	return s.Conn.Dead
}
