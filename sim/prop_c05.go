package sim

import (
	"fmt"
	"io"
	"strings"
	"time"

	xmpp "gosrc.io/xmpp"
	"gosrc.io/xmpp/stanza"
)

// C05 — every inbound stanza reaches the router exactly once; every <r/> is
// answered; nothing completely received before a loss is dropped; no element
// makes the client panic.

type c05Scenario struct {
	AfterReconnect   bool       `json:"after_reconnect,omitempty"` // the session under test was re-established by Resume after an earlier loss
	HandlerAddsRoute bool       `json:"a_handler_registers_a_route,omitempty"`
	DisconnectFirst  bool       `json:"application_disconnects_and_the_server_sends_the_sequence_before_its_closing_tag,omitempty"`
	GracefulEnd      bool       `json:"server_ends_the_stream_after_the_sequence,omitempty"` // </stream:stream> follows the last element at once; the server keeps reading
	LossWhilePaused  bool       `json:"connection_lost_while_answers_wait,omitempty"`        // with backpressure_window: the connection is lost while answers to <r/> still wait for their turn; the application then resumes
	BackPressure     int        `json:"backpressure_window,omitempty"`                       // >0: both receive windows are this small and the server stops reading while it sends
	Held             int        `json:"held_stanzas_before,omitempty"`
	WebSocket        bool       `json:"websocket"`
	Fragment         int        `json:"websocket_fragment_every,omitempty"` // >0: every n-th element is sent as a fragmented WebSocket message
	Component        bool       `json:"component"`
	Client           ClientOpts `json:"client"`
	Server           NegScript  `json:"server"`
	Inbound          []InEl     `json:"inbound"`
	Cut              bool       `json:"cut"`
	CutAt            int64      `json:"cut_at"`
	CutKind          string     `json:"cut_kind"`
	Seg              int        `json:"segmentation"`
	LatencyNs        int64      `json:"latency_ns"`
	Dawdle           int        `json:"handler_dawdle"`
	Reply            bool       `json:"handler_sends"`
	Chunk            int        `json:"server_write_chunk"`
}

func init() {
	register(&PropDef{
		ID:    "C05",
		Rule:  "scenario = (client or component, SM on/off, inbound element sequence incl. <r/>, <a/>, sizes up to 70 KiB, optional cut, segmentation, latency, handler behaviour); non-trivial = session established and at least one inbound element delivered; distinct = distinct (scenario hash, schedule hash)",
		Real:  []string{"xmpp.Client / xmpp.Component receive loops", "xmpp.Router and per-packet route goroutines", "xmpp.XMPPTransport", "stanza.NextPacket and codec"},
		Stub:  []string{"TCP (simnet)", "XMPP server (scripted model)", "clock (synctest)", "goroutine scheduling (token scheduler)", "sync.RWMutex (equivalent shim)"},
		Run:   runC05,
		Reach: []string{"c05.loss_while_answers_wait", "c05.websocket", "c05.websocket_fragmented_message", "c05.backpressure", "c05.r_answered", "c05.after_reconnect", "c05.server_ends_the_stream_after_the_sequence"},
	})
}

func runC05(e *Engine, g G, o RunOpt) RunInfo {
	sc := &c05Scenario{Client: DefaultClientOpts(), Server: DefaultNeg()}
	sc.Component = g.Pct("component", 30)
	sc.WebSocket = !sc.Component && !o.Avoiding("websocket") && g.Pct("websocket", 25)
	sc.Client.WebSocket = sc.WebSocket
	sc.Client.SM = g.Bool("sm")
	sc.Server.SM = sc.Client.SM
	sc.Seg, sc.LatencyNs = netModes(g, e)
	sc.Dawdle = g.N("dawdle", 3)
	sc.Reply = g.Pct("handler-sends", 30)
	if !sc.Component && !sc.WebSocket && g.Pct("backpressure", 12) {
		// flow control: small windows, a server that writes a burst before it reads again, and
		// (with stream management) held stanzas that an <a/> in the burst makes the client send again
		sc.BackPressure = []int{1500, 4000}[g.N("window", 2)]
		sc.Client.SM = true
		sc.Server.SM = true
		sc.Held = g.Range("held", 2, 4)
	}
	bpR := sc.BackPressure > 0 && !o.Avoiding("backpressure-ack-request")
	sc.LossWhilePaused = bpR && g.Pct("loss-while-paused", 40)
	sc.AfterReconnect = !sc.Component && !sc.WebSocket && sc.BackPressure == 0 && g.Pct("after-reconnect", 20)
	sc.Chunk = []int{100000, 700, 64}[g.N("chunk", 3)]
	n := 0
	switch g.Weighted("len", 5, 3, 1) {
	case 0:
		n = g.Range("n", 1, 6)
	case 1:
		n = g.Range("n", 4, 20)
	default:
		n = g.Range("n", 20, 60)
	}
	io2 := InboundOpts{AllowSpace: true, AllowEntity: true, AllowNested: true, AllowBig: true, AllowIQReq: true, IDPrefix: "in",
		AllowR: !sc.Component, AllowA: !sc.Component && !o.Avoiding("ack-answer-without-sm"), MaxA: 5}
	if sc.Client.SM && !sc.Component && !g.Pct("acks-with-sm", 30) {
		// with stream management on, <a/> drives retransmission (C10's business): mostly kept out of
		// this scenario - but an <a/> is an element a server can send at any time, with any h,
		// also when nothing is held
		io2.AllowA = false
	}
	wsCut, wsQuiet := false, false
	if sc.WebSocket {
		// Known finding websocket-frames-dropped-after-connection-loss needs the client to write
		// between the arrival of a frame and the loss. When that trigger is avoided, losses are
		// still explored - with histories in which the client has nothing to write (no <r/>, no
		// IQ requests, silent handlers, no stream management): there nothing may be dropped.
		wsCut = g.Pct("ws-cut", 35)
		if wsCut && o.Avoiding("websocket-connection-loss") {
			wsQuiet = true
			io2.AllowR = false
			io2.AllowIQReq = false
			io2.NoIQ = true
			sc.Reply = false
			sc.Client.SM = false
			sc.Server.SM = false
		}
		io2.MaxBig = 30000 // frames are limited to 32 KiB by the transport
		if g.Pct("ws-fragmented", 30) {
			sc.Fragment = g.Range("ws-fragment-every", 1, 3)
		}
		io2.AllowSpace = false
		if n > 25 {
			n = 25
		}
	}
	if sc.BackPressure > 0 {
		io2.AllowA = false
		io2.AllowR = bpR
	}
	sc.Inbound = GenInbound(g, n, io2)
	if sc.WebSocket {
		// one element per frame, each with the namespace declaration framing requires
		for i := range sc.Inbound {
			sc.Inbound[i].Raw = withClientNS(sc.Inbound[i].Raw)
		}
	}
	total := lastEnd(sc.Inbound)
	sc.Cut = g.Pct("cut", 35)
	if sc.WebSocket {
		sc.Cut = wsCut
	}
	if sc.Cut {
		sc.CutAt = int64(g.Range("cutat", 0, int(total)))
		sc.CutKind = []string{"fin", "rst", "rst-discard"}[g.N("cutkind", 3)]
	}
	if !sc.Cut && !sc.WebSocket && !sc.Component && sc.BackPressure == 0 && g.Pct("graceful-end", 15) {
		// a server that shuts down asks for a last acknowledgement and ends its stream: what it sent
		// before is received like anything else, and its requests are answered
		sc.GracefulEnd = true
	}
	sc.HandlerAddsRoute = sc.Component && g.Pct("handler-adds-route", 30)
	if !sc.Cut && !sc.WebSocket && !sc.Component && sc.BackPressure == 0 && !sc.GracefulEnd && g.Pct("disconnect-first", 12) {
		// The application calls Disconnect(); the server answers the closing tag with the whole sequence
		// and only then with its own closing tag. A stream is closed when both tags are exchanged: what
		// the server sends before its tag is received and routed like anything else.
		sc.DisconnectFirst = true
	}

	var handled *[]Handled
	farewellSent := false
	var panicsBefore int
	established := false
	var base, readAtEnd int64
	var conn *SrvConn
	answered := 0

	staleAnswers := 0
	e.Run(func() {
		var cli *End
		var cw *CW
		var srvX *Server
		var sender xmpp.Sender
		var sendBack func(s xmpp.Sender, p stanza.Packet)
		nth := 0
		if sc.Reply {
			sendBack = func(s xmpp.Sender, p stanza.Packet) {
				if _, id, _ := packetInfo(p); id != "" {
					nth++
					s.SendRaw(fmt.Sprintf("<message id='echo-%s' to='peer@%s'><body>got it</body></message>", id, SimDomain))
				}
			}
		}
		if sc.WebSocket {
			ws := NewWSServer(e)
			defer ws.Stop()
			ws.SM = sc.Client.SM
			w := NewCW(e, sc.Client, sharedCerts())
			w.Dawdle = sc.Dawdle
			w.OnPacket = sendBack
			w.CatchAll()
			handled = &w.Handled
			if err := w.Create(); err != nil {
				return
			}
			err, _ := e.Call("Connect", w.Client.Connect)
			if err != nil || len(ws.Conns) == 0 || !ws.Conns[0].Established {
				return
			}
			e.Sleep(50 * time.Millisecond)
			wc := ws.Conns[0]
			established = true
			cli = wc.Pipe.Cli
			base = wc.Pipe.Srv.TotalWritten
			panicsBefore = len(e.Panics)
			if sc.Cut {
				cli.CutAt = base + sc.CutAt
				cli.CutErr = io.EOF
				if sc.CutKind != "fin" {
					cli.CutErr = resetErr("read")
					cli.CutDiscard = sc.CutKind == "rst-discard"
				}
			}
			for i := range sc.Inbound {
				before := wc.Pipe.Srv.TotalWritten
				var err error
				if sc.Fragment > 0 && i%sc.Fragment == 0 && len(sc.Inbound[i].Raw) > 20 {
					// a server may split a message into several frames
					err = wc.SendFragmented(sc.Inbound[i].Raw, 2+i%3)
					e.Probe("c05.websocket_fragmented_message")
				} else {
					err = wc.Send(sc.Inbound[i].Raw)
				}
				sc.Inbound[i].End = wc.Pipe.Srv.TotalWritten - base
				if wc.TextEnd > before {
					sc.Inbound[i].TextEnd = wc.TextEnd - base
				}
				if err != nil || wc.Pipe.Srv.TotalWritten == before {
					// never left the server (the connection was already gone): not part of what was received
					sc.Inbound[i].End = 1 << 62
				}
				e.Yield("srv.more")
			}
			total = lastEnd(sc.Inbound)
			e.WaitUntilFor("drain", 10*time.Minute, func() bool {
				return cli.rTerm != nil || cli.IsClosed() || (cli.TotalRead >= base+total)
			})
			e.Sleep(30 * time.Second)
			readAtEnd = cli.TotalRead
			for _, el := range wc.Recv {
				if el.Is(nsSM, "a") {
					answered++
				}
			}
			e.Probe("c05.websocket")
			return
		}
		if sc.Component {
			w, _, c, ok := StartComponent(e, "s3cr3t", sc.Server, func(w *CompW, s *Server) {
				w.Dawdle = sc.Dawdle
				w.OnPacket = sendBack
				if sc.HandlerAddsRoute {
					// an application that sets a route up when it first needs it: from a handler, which on a
					// component runs on the receive loop itself (behind the catch-all: it never matches)
					added := false
					w.OnPacket = func(snd xmpp.Sender, p stanza.Packet) {
						if !added {
							added = true
							w.Router.NewRoute().Packet("message").StanzaType("no-such-type").HandlerFunc(func(xmpp.Sender, stanza.Packet) {})
							e.Probe("c05.handler_registers_a_route")
						}
						if sendBack != nil {
							sendBack(snd, p)
						}
					}
				}
				w.CatchAll()
			})
			handled = &w.Handled
			if !ok {
				return
			}
			conn = c
		} else {
			s, ok := StartClient(e, sc.Client, []NegScript{sc.Server}, func(w *CW, s *Server) {
				w.Dawdle = sc.Dawdle
				w.OnPacket = sendBack
				w.CatchAll()
			})
			handled = &s.W.Handled
			if !ok {
				return
			}
			conn = s.Conn
			sender = s.W.Client
			cw, srvX = s.W, s.Srv
			if sc.AfterReconnect {
				// lose this session and have the application resume: everything below happens on the new connection
				c0 := s.Conn
				c0.Pipe.Cli.CutAt = c0.End.TotalWritten
				c0.Pipe.Cli.CutErr = io.EOF
				if e.WaitUntilFor("first-loss", time.Minute, func() bool { return countState(s.W.Events, xmpp.StateDisconnected) > 0 }) {
					return
				}
				e.Sleep(time.Second)
				err, _ := e.Call("Resume", s.W.Client.Resume)
				if err != nil || len(s.Srv.Conns) != 2 {
					return
				}
				e.Sleep(100 * time.Millisecond)
				conn = s.Srv.Conns[1]
				s.W.Handled = nil
				e.Probe("c05.after_reconnect")
			}
		}
		established = true
		cli = conn.Pipe.Cli
		if sc.BackPressure > 0 {
			for i := 0; i < sc.Held; i++ {
				sender.SendRaw(fmt.Sprintf("<message id='held%d' to='peer@%s'><body>%s</body></message>", i+1, SimDomain, strings.Repeat("h", sc.BackPressure/5)))
				e.Yield("held.sent")
			}
			e.Sleep(100 * time.Millisecond)
			cli.RecvWindow = sc.BackPressure
			conn.End.RecvWindow = sc.BackPressure
			conn.PauseReads = true
			e.Probe("c05.backpressure")
		}
		base = conn.End.TotalWritten
		panicsBefore = len(e.Panics)
		if sc.Cut {
			cli.CutAt = base + sc.CutAt
			switch sc.CutKind {
			case "fin":
				cli.CutErr = io.EOF
			case "rst":
				cli.CutErr = resetErr("read")
			default:
				cli.CutErr = resetErr("read")
				cli.CutDiscard = true
			}
		}
		var all strings.Builder
		for _, el := range sc.Inbound {
			all.WriteString(el.Raw)
		}
		if sc.BackPressure > 0 {
			// the burst starts with an acknowledgement of nothing: everything held is sent again
			ack := fmt.Sprintf("<a xmlns='%s' h='0'/>", nsSM)
			conn.Send(ack)
			base += int64(len(ack))
		}
		if sc.GracefulEnd {
			all.WriteString("</stream:stream>")
			e.Probe("c05.server_ends_the_stream_after_the_sequence")
		}
		if sc.DisconnectFirst {
			conn.Farewell = all.String()
			e.Call("Disconnect", sender.(*xmpp.Client).Disconnect)
			farewellSent = conn.FarewellSent
			e.Probe("c05.disconnect_then_the_server_sends")
		} else {
			conn.SendChunks(all.String(), sc.Chunk)
		}
		if sc.LossWhilePaused && cw != nil && !sc.Cut {
			// the connection is lost while the peer still does not read: answers to the <r/> of the
			// burst are waiting for their turn to be written. The application resumes; nothing that
			// belonged to the lost connection may show up on the new one.
			e.Sleep(200 * time.Millisecond)
			nd := countState(cw.Events, xmpp.StateDisconnected)
			nc := len(srvX.Conns)
			for len(srvX.Scripts) <= nc {
				srvX.Scripts = append(srvX.Scripts, sc.Server)
			}
			// (the application resumes from within the Disconnected callback, like a StreamManager)
			resumed := false
			cw.Client.SetHandler(cw.EventRecorder(func(ev xmpp.Event) error {
				if xmpp.VerifEventState(ev) == xmpp.StateDisconnected && !resumed {
					resumed = true
					err := cw.Client.Resume()
					e.Logf("app.reconnect", "Resume from the Disconnected callback: %v", err)
				}
				return nil
			}))
			cli.CutAt = conn.End.TotalWritten
			cli.CutErr = resetErr("read")
			if !e.WaitUntilFor("lost-while-paused", time.Minute, func() bool { return countState(cw.Events, xmpp.StateDisconnected) > nd }) {
				e.Sleep(5 * time.Second)
				if len(srvX.Conns) > nc {
					for _, r := range srvX.Conns[nc].Elements() {
						if r.Item.Elem.Is(nsSM, "a") && r.Phase < 2 {
							staleAnswers++
						}
					}
				}
				e.Probe("c05.loss_while_answers_wait")
			}
		}
		conn.PauseReads = false
		// let everything be delivered, parsed and routed
		e.WaitUntilFor("drain", 10*time.Minute, func() bool {
			return cli.rTerm != nil || cli.IsClosed() || (cli.TotalRead >= base+total)
		})
		e.Sleep(30 * time.Second)
		readAtEnd = cli.TotalRead
		for _, r := range conn.Elements() {
			if r.Item.Elem.Is(nsSM, "a") {
				answered++
			}
		}
	})

	info := RunInfo{Scenario: sc, Nontrivial: established && len(sc.Inbound) > 0}
	if sc.WebSocket && sc.Cut && !wsQuiet {
		info.Triggers = append(info.Triggers, "websocket-connection-loss")
	}
	if wsQuiet {
		e.Probe("c05.websocket_loss_without_client_writes")
	}
	if sc.BackPressure > 0 {
		for _, el := range sc.Inbound {
			if el.Kind == "r" {
				info.Triggers = append(info.Triggers, "backpressure-ack-request")
				break
			}
		}
	}
	if !established {
		e.Probe("precondition_failed")
		return info
	}
	if staleAnswers > 0 {
		e.Violate("C05", "stale-answer-on-next-connection", "%d <a/> answers to acknowledgement requests of the lost connection were written on the next connection before it was authenticated", staleAnswers)
	}
	if e.Stuck != "" {
		e.Violate("C05", "stuck", "%s", e.Stuck)
		return info // the run did not finish: the delivery accounting below would be meaningless
	}
	for _, p := range e.Panics[panicsBefore:] {
		e.Violate("C05", "panic:"+panicSite(p), "%s: %s\n%s", p.Where, p.Value, clip(p.Stack, 1800))
	}
	if sc.DisconnectFirst && farewellSent {
		// sent at once in answer to the closing tag, well within the time Disconnect waits for the
		// server's tag: all of it is to be received
		readAtEnd = base + total
	}
	got := map[string]int{}
	var order []string
	for _, h := range *handled {
		if h.Kind == "message" || h.Kind == "presence" || h.Kind == "iq" {
			got[h.Kind+"/"+h.ID]++
			order = append(order, h.Kind+"/"+h.ID)
		}
	}
	var want []string
	rs := 0
	for _, el := range sc.Inbound {
		if base+el.End > readAtEnd {
			break
		}
		if el.Kind == "r" {
			rs++
		}
		if el.Stanza {
			want = append(want, el.Kind+"/"+el.ID)
		}
	}
	wantSet := map[string]bool{}
	for _, k := range want {
		wantSet[k] = true
		switch {
		case got[k] == 0:
			e.Violate("C05", "stanza-lost", "%s was completely received (%d bytes read of the sequence) but never reached a handler; handled: %v", k, readAtEnd-base, order)
		case got[k] > 1:
			e.Violate("C05", "stanza-duplicated", "%s reached the handler %d times", k, got[k])
		}
	}
	// A WebSocket message whose text has arrived in full but whose (empty) final frame has not may be
	// handed over or not: the property asks for neither.
	for _, el := range sc.Inbound {
		if el.TextEnd > 0 && base+el.TextEnd <= readAtEnd && base+el.End > readAtEnd && el.Stanza {
			e.Probe("c05.websocket_text_complete_final_frame_missing")
			if got[el.Kind+"/"+el.ID] == 1 {
				wantSet[el.Kind+"/"+el.ID] = true
			}
		}
	}
	for _, k := range sortedKeys(got) {
		if !wantSet[k] {
			e.Violate("C05", "stanza-invented", "%s reached a handler but was not completely received", k)
		}
	}
	if sc.Component && len(e.Violations) == 0 {
		for i := range want {
			if i < len(order) && order[i] != want[i] {
				e.Violate("C05", "component-order", "component handled %v, arrival order was %v", order, want)
				break
			}
		}
	}
	if !sc.Component && !sc.Cut && !sc.LossWhilePaused && !sc.DisconnectFirst {
		if answered != rs {
			e.Violate("C05", fmt.Sprintf("r-answered-%s", cmp3(answered, rs)), "server sent %d <r/>, received %d <a/>", rs, answered)
		}
		if rs > 0 {
			e.Probe("c05.r_answered")
		}
	}
	if len(want) > 8 {
		e.Probe("c05.long_history")
	}
	return info
}

func cmp3(a, b int) string {
	switch {
	case a < b:
		return "too-few"
	case a > b:
		return "too-many"
	}
	return "equal"
}

// panicSite extracts the innermost library frame of a captured panic, so
// that different panics have different signatures.
func panicSite(p PanicRec) string {
	lines := strings.Split(p.Stack, "\n")
	for i, l := range lines {
		if strings.HasPrefix(l, "gosrc.io/xmpp") && !strings.Contains(l, "simhook") && i+1 < len(lines) {
			fn := l
			if k := strings.IndexByte(fn, '('); k > 0 {
				// keep receiver-qualified name without arguments
				if j := strings.LastIndex(fn, "("); j > 0 && strings.HasSuffix(fn, ")") {
					fn = fn[:j]
				}
			}
			fn = strings.TrimPrefix(fn, "gosrc.io/xmpp")
			return strings.Trim(fn, "./")
		}
	}
	return "unknown"
}
