//go:build verif

package xmpp

// This file is added to package xmpp only through the build overlay generated
// by /verif (it is never part of the repository). It exposes, read-mostly, the
// few internals the properties quantify over and that a user of the package
// cannot reach. Nothing in here is instrumented, so oracles can call it from
// the scheduler while the system is quiescent.

import (
	"io"
	"reflect"
	"sort"
	"time"
)

// VerifSetSMResume sets the (unexported) "ask for a resumable session" flag.
func VerifSetSMResume(c *Config, b bool) { c.streamManagementResume = b }

func VerifClientTransport(c *Client) Transport { return c.transport }

func VerifClientLogTraffic(c *Client, w io.Writer) { c.transport.LogTraffic(w) }

func VerifClientState(c *Client) ConnState { return c.CurrentState.state }

func VerifComponentState(c *Component) ConnState { return c.CurrentState.state }

func VerifComponentTransport(c *Component) Transport { return c.transport }

func VerifEventState(e Event) ConnState { return e.State.state }

func VerifSMEnabled(c *Client) bool { return c.config.StreamManagementEnable }

// VerifPendingIQ lists the ids in the pending-request table (no locking: call
// only while every goroutine is parked).
func VerifPendingIQ(r *Router) []string {
	var ids []string
	for id := range r.IQResultRoutes {
		ids = append(ids, id)
	}
	// (requests waiting behind another one with the same id, where the tree has such a table: looked up by
	// name so that this file also builds against trees without it)
	if f := reflect.ValueOf(r).Elem().FieldByName("shadowedIQResultRoutes"); f.IsValid() && f.Kind() == reflect.Map {
		for _, k := range f.MapKeys() {
			for i := 0; i < f.MapIndex(k).Len(); i++ {
				ids = append(ids, k.String()+"(waiting)")
			}
		}
	}
	sort.Strings(ids)
	return ids
}

// VerifBackoff wraps the unexported back-off type.
type VerifBackoff struct{ b backoff }

func NewVerifBackoff(noJitter bool, base, factor, cap int) *VerifBackoff {
	return &VerifBackoff{b: backoff{NoJitter: noJitter, Base: base, Factor: factor, Cap: cap}}
}
func (v *VerifBackoff) Wait()                                  { v.b.wait() }
func (v *VerifBackoff) Duration() time.Duration                { return v.b.duration() }
func (v *VerifBackoff) DurationForAttempt(n int) time.Duration { return v.b.durationForAttempt(n) }
func (v *VerifBackoff) Reset()                                 { v.b.reset() }

// SetCap changes the cap of a back-off object that may already have been used; Copy is the
// struct copy of one (a template handed on).
func (v *VerifBackoff) SetCap(c int)        { v.b.Cap = c }
func (v *VerifBackoff) Copy() *VerifBackoff { c := *v; return &c }
