// Package simsync replaces the import "sync" in the instrumented go-xmpp
// packages. Mutex and RWMutex are scheduler-aware (a goroutine waiting for a
// lock is parked at the simulator instead of blocking in the runtime, which
// testing/synctest would not count as durably blocked); everything else is
// the real thing. Semantics are those of package sync: mutual exclusion, no
// fairness promise.
package simsync

import (
	"sync"

	"gosrc.io/xmpp/simhook"
)

type WaitGroup = sync.WaitGroup
type Once = sync.Once
type Locker = sync.Locker
type Map = sync.Map
type Pool = sync.Pool

type Mutex struct {
	locked bool
}

func (m *Mutex) Lock() {
	simhook.YieldUntil("sync.Mutex.Lock", func() bool { return !m.locked })
	m.locked = true
}

// TryLock is a scheduling point like Lock, but never waits.
func (m *Mutex) TryLock() bool {
	simhook.Yield("sync.Mutex.TryLock")
	if m.locked {
		return false
	}
	m.locked = true
	return true
}

func (m *Mutex) Unlock() {
	if !m.locked {
		panic("sync: unlock of unlocked mutex")
	}
	m.locked = false
}

// As documented for sync.RWMutex, a Lock call that waits keeps new readers out ("if any goroutine
// calls Lock while the lock is already held by one or more readers, concurrent calls to RLock will
// block until the writer has acquired (and released) the lock"): recursive read locking deadlocks
// here as it does in the runtime.
type RWMutex struct {
	w     bool
	r     int
	wwait int // Lock calls waiting
}

func (m *RWMutex) Lock() {
	m.wwait++
	simhook.YieldUntil("sync.RWMutex.Lock", func() bool { return !m.w && m.r == 0 })
	m.wwait--
	m.w = true
}

func (m *RWMutex) TryLock() bool {
	simhook.Yield("sync.RWMutex.TryLock")
	if m.w || m.r != 0 {
		return false
	}
	m.w = true
	return true
}

func (m *RWMutex) TryRLock() bool {
	simhook.Yield("sync.RWMutex.TryRLock")
	if m.w || m.wwait > 0 {
		return false
	}
	m.r++
	return true
}

func (m *RWMutex) Unlock() {
	if !m.w {
		panic("sync: Unlock of unlocked RWMutex")
	}
	m.w = false
}

func (m *RWMutex) RLock() {
	simhook.YieldUntil("sync.RWMutex.RLock", func() bool { return !m.w && m.wwait == 0 })
	m.r++
}

func (m *RWMutex) RUnlock() {
	if m.r <= 0 {
		panic("sync: RUnlock of unlocked RWMutex")
	}
	m.r--
}

func (m *RWMutex) RLocker() sync.Locker { return (*rlocker)(m) }

type rlocker RWMutex

func (r *rlocker) Lock()   { (*RWMutex)(r).RLock() }
func (r *rlocker) Unlock() { (*RWMutex)(r).RUnlock() }

// State reports the lock state for oracles (read while quiescent).
func (m *RWMutex) State() (writer bool, readers int) { return m.w, m.r }
