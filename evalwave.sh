#!/bin/bash
# usage: evalwave.sh <agents-out dir> <eval dir> <PROP> [a|b ...]   e.g. evalwave.sh /tmp/agents-out8 /tmp/eval8 C07 a b
# Evaluates the changes one sub-agent delivered for one property with evalmutant.sh; output goes to <eval dir>/<PROP>_<x>.txt
A=$1; E=$2; P=$3; shift 3
mkdir -p $E
for x in ${@:-a b}; do
  D=$A/$P/mutant_$x.diff; T=$(ls $A/$P/mutant_${x}_demo*_test.go 2>/dev/null | head -1)
  [ -f "$D" ] || { echo "$P $x: no diff"; continue; }
  DIR=.; grep -q "^package stanza" "$T" 2>/dev/null && DIR=stanza
  EVAL_OUT=$E/out-${P}_$x ${VERIF_HOME:-/verif}/evalmutant.sh $P $D "$T" $DIR > $E/${P}_$x.txt 2>&1
  echo "== $P $x: $(grep -c 'VIOLATION' $E/${P}_$x.txt) violation lines"; grep -E "demo-with|demo-without|suite-with|runs \(|PATCH" $E/${P}_$x.txt | cut -c1-220
done
