// Package proto holds the data exchanged between the orchestrator
// (cmd/verif) and the worker test binary (package sim, which can only be
// built together with the instrumentation overlay).
package proto

import (
	"encoding/json"
	"sort"
)

// Draw is one recorded choice: its kind, its bound and the value taken.
type Draw struct {
	K string `json:"k"`
	N int    `json:"n"`
	V int    `json:"v"`
}

type TapeRec struct {
	Property string   `json:"property"`
	Engine   string   `json:"engine"`
	Seed     uint64   `json:"seed"`
	Tier     string   `json:"tier"`
	Avoid    []string `json:"avoid,omitempty"`
	Gen      []Draw   `json:"gen"`
	Run      []Draw   `json:"run"`
}

type RunResult struct {
	Run        int             `json:"run"`
	Seed       uint64          `json:"seed"`
	Steps      int             `json:"steps"`
	SimNs      int64           `json:"sim_ns"`
	Events     int             `json:"events"`
	LogHash    uint64          `json:"log_hash"`
	SchedHash  uint64          `json:"sched_hash"`
	ScenHash   uint64          `json:"scenario_hash"`
	Nontrivial bool            `json:"nontrivial"`
	Faults     map[string]int  `json:"faults,omitempty"`
	Probes     map[string]int  `json:"probes,omitempty"`
	Violations []Violation     `json:"violations,omitempty"`
	Stuck      string          `json:"stuck,omitempty"`
	TapeErr    string          `json:"tape_err,omitempty"`
	Scenario   json.RawMessage `json:"scenario,omitempty"`
	Triggers   []string        `json:"triggers,omitempty"`
	Strategy   Strategy        `json:"strategy"`
	Tape       *TapeRec        `json:"tape,omitempty"`
	Log        []string        `json:"log,omitempty"`
	Panics     []PanicRec      `json:"panics,omitempty"`
	Infra      string          `json:"infra,omitempty"`
}

type WorkerArgs struct {
	Prop     string   `json:"prop"`
	Seed     uint64   `json:"seed"`
	From     int      `json:"from"`
	To       int      `json:"to"`
	Stride   int      `json:"stride"`
	Mode     string   `json:"mode"` // explore | replay | shrink | determinism
	TapeFile string   `json:"tape_file,omitempty"`
	Out      string   `json:"out"`
	Tier     string   `json:"tier"`
	Avoid    []string `json:"avoid,omitempty"`
	WallS    float64  `json:"wall_s"`
	Samples  int      `json:"samples"`
	MaxViol  int      `json:"max_violations"`
	Target   string   `json:"target_signature,omitempty"`
}

// PropMeta is what a property definition says about itself.
type PropMeta struct {
	Rule string   `json:"rule"`
	Real []string `json:"real"`
	Stub []string `json:"stub"`
	// Reach: probes that a batch of a few thousand runs must hit at least once; a probe stuck at
	// zero means a world is no longer reached (the check then has no verdict rather than a clean one)
	Reach []string `json:"required_reach_probes,omitempty"`
}

// PropIDs lists the properties that have a check.
var PropIDs = []string{"C02", "C03", "C04", "C06", "C07", "C08", "C09", "C10", "C11", "C13", "C14", "C05", "C12", "C16", "C18", "C19"}

type WorkerOut struct {
	Meta         PropMeta          `json:"meta"`
	Args         WorkerArgs        `json:"args"`
	Runs         int               `json:"runs"`
	Steps        int64             `json:"steps"`
	MaxRunSteps  int               `json:"max_run_steps"`
	SimNs        float64           `json:"sim_ns"`
	Events       int64             `json:"events"`
	WallS        float64           `json:"wall_s"`
	Faults       map[string]int    `json:"faults"`
	Probes       map[string]int    `json:"probes"`
	Strategies   map[string]int    `json:"strategies"`
	Triggers     map[string]int    `json:"triggers"`
	Distinct     []uint64          `json:"distinct"` // hashes of (scenario, schedule) of non-trivial runs
	DistinctScen []uint64          `json:"distinct_scenarios"`
	Nontrivial   int               `json:"nontrivial"`
	Violating    []*RunResult      `json:"violating"`
	Samples      []*RunResult      `json:"samples"`
	Infra        []string          `json:"infra"`
	Hashes       map[string]uint64 `json:"hashes,omitempty"` // determinism mode: run -> log hash
	Replayed     *RunResult        `json:"replayed,omitempty"`
	ShrinkRuns   int               `json:"shrink_runs,omitempty"`
	// NextFrom > 0: the worker stopped before its range or wall budget was used up because its
	// memory grew past the limit (goroutines blocked for ever in finished bubbles are never
	// freed); the orchestrator continues from this run in a fresh process.
	NextFrom   int `json:"next_from,omitempty"`
	SysMB      int `json:"sys_mb"`
	Goroutines int `json:"goroutines_at_exit"`
}

func (r *RunResult) Signature() string {
	if len(r.Violations) == 0 {
		return ""
	}
	var s []string
	for _, v := range r.Violations {
		s = append(s, v.Prop+":"+v.Class)
	}
	sort.Strings(s)
	// the first (alphabetically) class is the signature; runs usually have one
	return s[0]
}

type PanicRec struct {
	Where string
	Value string
	Stack string
}

type Violation struct {
	Prop   string `json:"property"`
	Class  string `json:"class"`
	Detail string `json:"detail"`
}

// Strategy parameters, drawn per run.
type Strategy struct {
	Kind       string `json:"kind"` // sticky | uniform | pct
	PreemptPm  int    `json:"preempt_permille,omitempty"`
	PCTDepth   int    `json:"pct_depth,omitempty"`
	PCTHorizon int    `json:"pct_horizon,omitempty"`
}

const EngineVersion = "simxmpp-1"
