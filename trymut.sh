#!/bin/bash
# usage: trymut.sh <diff> <PROP-to-check> [runs]  - dev batch (one process) of a property's scenarios against a scratch worktree with the diff applied
D=$1; P=$2; N=${3:-1500}
W=$(mktemp -d /tmp/tm-XXXXXX); rmdir $W
git -C /repo worktree add -q --detach $W HEAD || exit 2
(cd $W && { git apply $D 2>/dev/null || git apply -3 $D >/dev/null 2>&1; }) || { echo "PATCH DOES NOT APPLY"; git -C /repo worktree remove --force $W; exit 2; }
VERIF_REPO=$W AVOID="$AVOID" /verif/dev.sh $P 0 $N 0 2>&1 | tail -1 | cut -c1-600
git -C /repo worktree remove --force $W
