#!/usr/bin/env python3
"""Imports the seeded changes delivered by independent sub-agents (given only the property text
and a scratch worktree) into /verif/seeded/<id>/, using the facts established by evalmutant.sh:
patch applies and builds, baseline suite passes with it, the demonstration passes without it and
fails with it, and which of our checks report a violation on it."""
import json, os, re, shutil, subprocess, sys, glob

EVAL = sys.argv[1] if len(sys.argv) > 1 else '/tmp/eval'
OUT = '/verif/seeded'
agents = sys.argv[2] if len(sys.argv) > 2 else '/tmp/agents-out'
WAVE = sys.argv[3] if len(sys.argv) > 3 else ''
rows = []
for txt in sorted(glob.glob(EVAL + '/C*_?.txt')):
    name = os.path.basename(txt)[:-4]          # C07_a
    prop, x = name.split('_')
    t = open(txt).read()
    d = os.path.join(agents, prop)
    diff = os.path.join(d, 'mutant_%s.diff' % x)
    demos = glob.glob(os.path.join(d, 'mutant_%s_demo*' % x))
    demo_without = re.findall(r'demo-without-change: (.*)', t)
    demo_with = re.findall(r'demo-with-change: (.*)', t)
    suite = re.findall(r'suite-with-change: (.*)', t)
    ok_without = any(l.startswith('ok') for l in demo_without) and not any('FAIL' in l for l in demo_without)
    fail_with = any('FAIL' in l or 'panic' in l for l in demo_with)
    suite_ok = bool(suite) and 'FAIL' not in suite[0] and suite[0].count('ok') >= 2
    checks = {}
    for m in re.finditer(r'\[(C\d+)\] (C\d+): (\d+) runs .* (\d+) violation\(s\).* exit (\d)', t):
        checks[m.group(1)] = {'runs': int(m.group(3)), 'violations_reported': int(m.group(4)), 'exit': int(m.group(5))}
    classes = re.findall(r'class: (\S+)', t)
    details = re.findall(r'detail: (.*)', t)
    readme = open(os.path.join(d, 'README.md')).read() if os.path.exists(os.path.join(d, 'README.md')) else ''
    sid = '%s-%s%s' % (prop, WAVE, x)
    dst = os.path.join(OUT, sid)
    keep = ok_without and fail_with and suite_ok and os.path.exists(diff)
    rows.append((sid, keep, ok_without, fail_with, suite_ok, checks, classes))
    if not keep:
        continue
    os.makedirs(dst, exist_ok=True)
    shutil.copy(diff, os.path.join(dst, 'patch.diff'))
    orig = os.path.join(d, 'mutant_%s.orig.diff' % x)
    if os.path.exists(orig):
        # the change was rebased by hand onto a later /repo HEAD (a fix: commit touched the same lines)
        shutil.copy(orig, os.path.join(dst, 'patch.orig.diff'))
    for dm in demos:
        shutil.copy(dm, os.path.join(dst, os.path.basename(dm)))
    # the part of the agent's README about this mutant
    sec = ''
    m = re.search(r'(?is)(#+[^\n]*mutant %s.*?)(?=\n#+[^\n]*mutant [^%s]|\Z)' % (x, x), readme)
    if m:
        sec = m.group(1).strip()
    open(os.path.join(dst, 'AGENT_NOTES.md'), 'w').write(sec or readme)
    detected = [c for c, v in checks.items() if v['exit'] == 1]
    meta = {
        'id': sid,
        'breaks_property': prop,
        'origin': 'written by an independent sub-agent that was given only the text of the property and its own git worktree of /repo (nothing from /verif)',
        'base_commit': subprocess.check_output(['git', '-C', '/repo', 'rev-parse', '--short', 'HEAD']).decode().strip(),
        'needs_to_manifest': 'see AGENT_NOTES.md',
        'demonstration': [os.path.basename(dm) for dm in demos],
        'demonstration_placement': 'stanza/' if any('package stanza' in open(dm).read() for dm in demos) else 'repository root (package xmpp)',
        'confirmed': {
            'patch_applies_and_builds': True,
            'baseline_suite_passes_with_change': suite_ok,
            'demonstration_passes_without_change': ok_without,
            'demonstration_fails_with_change': fail_with,
            'how': 'evalmutant.sh: fresh `git worktree` of /repo HEAD under /tmp; copy the demonstration, run it (passes); `git apply patch.diff`; `go build ./...`; run the demonstration (fails); `go test -vet=off -count=1 ./...` (passes); then `VERIF_REPO=<worktree> bin/verif check <prop> --tier quick`; worktree removed',
        },
        'rebased_onto_later_head': os.path.exists(orig),
        'our_checks': checks,
        'detected_by': detected,
        'violation_classes_reported': sorted(set(classes)),
        'first_violation_detail': details[0][:400] if details else '',
    }
    json.dump(meta, open(os.path.join(dst, 'meta.json'), 'w'), indent=1)
print('%-8s %-5s %-8s %-8s %-6s %s' % ('id', 'keep', 'demo-ok', 'demo-fail', 'suite', 'checks'))
for r in rows:
    print('%-8s %-5s %-8s %-8s %-6s %s %s' % (r[0], r[1], r[2], r[3], r[4], {k: v['exit'] for k, v in r[5].items()}, sorted(set(r[6]))[:3]))

# summary table of everything under seeded/
lines = ['# Seeded changes', '',
         'Each directory holds one change to FluuxIO/go-xmpp written by an independent sub-agent (given only the text of',
         'one property and a scratch worktree), its demonstration, and `meta.json` (what was confirmed and which check',
         'reports it). Regenerate with `importseeded.py` after `evalmutant.sh` runs.', '',
         '| id | breaks | detected by | violation classes reported (first 3) |', '|---|---|---|---|']
for d in sorted(os.listdir(OUT)):
    mp = os.path.join(OUT, d, 'meta.json')
    if not os.path.exists(mp):
        continue
    m = json.load(open(mp))
    lines.append('| %s | %s | %s | %s |' % (m['id'], m['breaks_property'], ', '.join(m['detected_by']) or '**not detected**', ', '.join(m['violation_classes_reported'][:3])))
open(os.path.join(OUT, 'README.md'), 'w').write('\n'.join(lines) + '\n')
