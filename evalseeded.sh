#!/bin/bash
# usage: evalseeded.sh <seeded-id> [checks...]   e.g. evalseeded.sh C08-2b   or   evalseeded.sh C03-2b C03 C04
# Re-evaluates one seeded change from /verif/seeded/<id>/ (patch.diff + demonstration) with evalmutant.sh.
ID=$1; shift
D=/verif/seeded/$ID
[ -f $D/patch.diff ] || { echo "no such seeded change: $ID"; exit 2; }
PROP=$(python3 -c "import json;print(json.load(open('$D/meta.json'))['breaks_property'])")
DEMO=$(ls $D/*demo*_test.go 2>/dev/null | head -1)
DIR=.
grep -q "^package stanza" "$DEMO" 2>/dev/null && DIR=stanza
exec /verif/evalmutant.sh $PROP $D/patch.diff "$DEMO" $DIR "$@"
