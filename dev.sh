#!/bin/bash
# developer helper: build orchestrator + a kept scratch worker, run a few runs of one property and print logs
export GOFLAGS=-mod=mod GOPROXY=off GOSUMDB=off GOTOOLCHAIN=local
cd /verif && go1.26.8 build -o bin/verif ./cmd/verif || exit 1
S=$(./bin/verif build) || exit 1
PROP=$1; FROM=${2:-0}; TO=${3:-3}; SHOW=${4:-1}
export VERIF_WORKER="{\"prop\":\"$PROP\",\"seed\":${SEED:-1},\"from\":$FROM,\"to\":$TO,\"stride\":1,\"mode\":\"explore\",\"out\":\"$S/o.json\",\"tier\":\"${TIER:-quick}\",\"samples\":$SHOW,\"max_violations\":3,\"avoid\":[${AVOID}]}"
( time $S/worker.test -test.run TestWorker -test.timeout 0 ) 2>&1 | tail -${TAILN:-40}
python3 - "$S/o.json" <<'PY'
import json,sys
o=json.load(open(sys.argv[1]))
print({k:v for k,v in o.items() if k not in ('samples','violating','distinct','distinct_scenarios','args','meta')})
seen=set()
for s in (o['samples'] or [])+(o['violating'] or []):
    sig=tuple(sorted(set(v['class'] for v in s.get('violations') or [])))
    if s.get('violations') and sig in seen: continue
    seen.add(sig)
    print('--- run',s['run'],'steps',s['steps'],'strategy',s['strategy'])
    print(json.dumps(s.get('scenario'))[:1500])
    print('\n'.join(s.get('log') or []))
    for v in s.get('violations') or []: print('VIOLATION',v['class'],'::',v['detail'][:3000])
    print('stuck:',s.get('stuck'),'infra:',s.get('infra'))
viol={}
for s in (o['violating'] or []):
    for v in s['violations']: viol[v['class']]=viol.get(v['class'],0)+1
print('violation classes:',viol)
PY
rm -rf $S
