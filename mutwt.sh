#!/bin/bash
# usage: mutwt.sh <seeded-id>  -> prints the path of a scratch worktree of /repo HEAD with the seeded change applied
# (for repeated ./dev.sh runs with VERIF_REPO=<path>); remove with: git -C /repo worktree remove --force <path>
ID=$1; WT=/tmp/mw-$ID
git -C /repo worktree remove --force $WT >/dev/null 2>&1
git -C /repo worktree add -q --detach $WT HEAD || exit 2
cd $WT && { git apply /verif/seeded/$ID/patch.diff 2>/dev/null || git apply -3 /verif/seeded/$ID/patch.diff >/dev/null 2>&1; } || { echo "PATCH DOES NOT APPLY" >&2; exit 2; }
echo $WT
