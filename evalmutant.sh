#!/bin/bash
# usage: evalmutant.sh <PROP> <diff> <demo file or ""> <demo rel dir> [checks...]
# Applies a seeded change to a scratch worktree of /repo, verifies it builds and passes the
# baseline suite, runs its demonstration with and without it, then runs the given checks
# (default: the property's own) against it. Removes the worktree afterwards.
export GOFLAGS=-mod=mod GOPROXY=off GOSUMDB=off GOTOOLCHAIN=local
# the suite and the demonstrations listen on fixed TCP ports: give each run its own network namespace
gotest() { if unshare -rn true 2>/dev/null; then unshare -rn sh -c "ip link set lo up; go test $*"; else go test "$@"; fi; }
PROP=$1; DIFF=$2; DEMO=$3; DEMODIR=${4:-.}; shift 4
CHECKS=${@:-$PROP}
WT=$(mktemp -d /tmp/mutwt-XXXXXX); rmdir $WT
git -C /repo worktree add -q --detach $WT ${BASE_REV:-HEAD} || exit 2
trap "git -C /repo worktree remove --force $WT >/dev/null 2>&1" EXIT
cd $WT
if [ -n "$DEMO" ]; then
  cp $DEMO $WT/$DEMODIR/ && (gotest -vet=off -count=1 -run "'$(grep -ho 'func Test[A-Za-z0-9_]*' $DEMO | sed 's/func //' | paste -sd'|')'" ./$DEMODIR 2>&1 | tail -3 | sed 's/^/  demo-without-change: /')
fi
git apply $DIFF 2>/dev/null || git apply -3 $DIFF || { echo "PATCH DOES NOT APPLY"; exit 2; }
go build ./... 2>&1 | tail -3 || exit 2
[ -n "$DEMO" ] && (gotest -vet=off -count=1 -run "'$(grep -ho 'func Test[A-Za-z0-9_]*' $DEMO | sed 's/func //' | paste -sd'|')'" ./$DEMODIR 2>&1 | tail -3 | sed 's/^/  demo-with-change: /')
[ -n "$DEMO" ] && rm -f $WT/$DEMODIR/$(basename $DEMO)
echo "  suite-with-change: $(gotest -vet=off -count=1 ./... 2>&1 | tr '\n' ' ')"
cd ${VERIF_HOME:-/verif}
OUT=${EVAL_OUT:-$(mktemp -d /tmp/evalout-XXXXXX)}
for c in $CHECKS; do
  VERIF_OUT_DIR=$OUT VERIF_REPO=$WT ./bin/verif check $c --tier quick 2>&1 | grep -v "^verif check" | sed "s/^/  [$c] /" | cut -c1-400
done
echo "  out: $OUT"
