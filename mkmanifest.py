import json
claimed = json.load(open('/verif/claims.json'))
checks=[]
for c in claimed:
    pid=c['id']
    checks.append({
      "property_id": pid,
      "quick_cmd": f"bin/verif check {pid} --tier quick",
      "thorough_cmd": f"bin/verif check {pid} --tier thorough",
      "evidence_file": f"/verif/evidence/{pid}.json",
      "replay_cmd_template": "bin/verif replay {path}",
      "engine": "simxmpp",
      "level_claimed": {"category":"exploration","text":c['text'],"design_ref":c['ref']},
      "level_note": c['note'],
      "technique": c['technique'],
    })
na = json.load(open('/verif/not_applicable.json'))
have = {c['id'] for c in claimed} | {n['property_id'] for n in na}
for l in open('/verif/properties.jsonl'):
    pid = json.loads(l)['id']
    if pid not in have:
        na.append({"property_id": pid, "reason": "not claimed yet: its simulation check (DESIGN.md §4) is still under construction and is not registered until it runs clean on the unchanged tree"})
m={
 "version":1,
 "setup_cmd":"./setup.sh",
 "hooks":{
   "guard":"verif",
   "enable":"no hook is committed in /repo: every check re-instruments /repo's current working tree on the fly (verif/instrument: statement-level yields, sync->simsync shim, net.DialTimeout->simhook, panic capture, selects polled in a tape-chosen order; plus overlay-only files simhook/, export_verif.go guarded by //go:build verif) into a scratch directory and builds the worker with `go1.26.8 test -c -tags verif -overlay <scratch>/overlay.json -vet=off -modfile <scratch>/go.mod ./sim`",
   "baseline_off_cmd":"cd /repo && GOFLAGS=-mod=mod GOPROXY=off GOSUMDB=off go test -json -vet=off -count=1 -timeout 25m ./...",
   "source_commits":[],
   "add_only":True
 },
 "engines":[{"name":"simxmpp","path":"/verif/sim","serves_properties":[c['id'] for c in claimed],"kind_free_text":"deterministic simulation with fault injection: real go-xmpp Client/Component/Router/StreamManager/XMPPTransport run inside one testing/synctest bubble per run over an in-memory fault-injecting network against a scripted XMPP server; one seeded token scheduler decides every interleaving (statement-level yields inserted by an AST instrumenter through go build -overlay), delivery, segmentation and fault; violations are minimised on the choice tape and confirmed by replay in a fresh process"}],
 "checks":checks,
 "not_applicable":na,
 "notes":"See DESIGN.md. Exit codes: 0 held (possibly with KNOWN-FINDING lines), 1 with VIOLATION lines, 2 = no verdict (build failure, watchdog, non-reproducing violation). known_findings.json lists genuine defects (open or fixed)."
}
json.dump(m,open('/verif/MANIFEST.json','w'),indent=1)
print(len(checks),'checks')
