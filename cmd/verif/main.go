// Command verif is the orchestrator of the deterministic-simulation checks:
// instrument /repo's current working tree into a scratch overlay, build the
// worker, fan runs out over worker processes, merge, minimise and replay
// violations in fresh processes, and write the evidence file.
//
// Exit codes: 0 property held on everything explored (possibly with
// KNOWN-FINDING lines), 1 with a "VIOLATION property=<id> replay=<path>"
// line, 2 for anything that is not a verdict (build failure, watchdog,
// violation that does not replay).
package main

import (
	"bytes"
	"encoding/json"
	"flag"
	"fmt"
	"os"
	"os/exec"
	"path/filepath"
	"runtime"
	"sort"
	"strconv"
	"strings"
	"sync"
	"time"

	"verif/instrument"
	sim "verif/proto"
)

var verifDir = "/verif"

func main() {
	if d := os.Getenv("VERIF_DIR"); d != "" {
		verifDir = d
	}
	if len(os.Args) < 2 {
		usage()
	}
	switch os.Args[1] {
	case "check":
		os.Exit(cmdCheck(os.Args[2:]))
	case "replay":
		os.Exit(cmdReplay(os.Args[2:]))
	case "selftest":
		os.Exit(cmdSelftest(os.Args[2:]))
	case "warm":
		b, err := build(false)
		b.cleanup()
		if err != nil {
			fmt.Fprintln(os.Stderr, err)
			os.Exit(2)
		}
		fmt.Println("instrumented worker builds; build cache is warm")
	case "build":
		b, err := build(true)
		if err != nil {
			fmt.Fprintln(os.Stderr, err)
			os.Exit(2)
		}
		fmt.Println(b.scratch)
	default:
		usage()
	}
}

func usage() {
	fmt.Fprintln(os.Stderr, "usage: verif check <Cxx> [--tier quick|thorough] | replay <file> | selftest determinism [...] | build")
	os.Exit(2)
}

// outDir is where evidence/ and replays/ are written: /verif, unless a
// scratch evaluation (seeded changes) redirects it.
func outDir() string {
	if d := os.Getenv("VERIF_OUT_DIR"); d != "" {
		return d
	}
	return verifDir
}

func repoDir() string {
	if d := os.Getenv("VERIF_REPO"); d != "" {
		return d
	}
	return "/repo"
}

func seedEnv() uint64 {
	if s := os.Getenv("VERIF_SEED"); s != "" {
		if v, err := strconv.ParseUint(s, 10, 64); err == nil {
			return v
		}
		if v, err := strconv.ParseInt(s, 10, 64); err == nil {
			return uint64(v)
		}
	}
	return 1
}

// ---------------------------------------------------------------------------
// build

type built struct {
	scratch string
	worker  string
	stats   *instrument.Stats
	keep    bool
}

func (b *built) cleanup() {
	if b != nil && !b.keep {
		os.RemoveAll(b.scratch)
	}
}

func goEnv() []string {
	env := os.Environ()
	env = append(env, "GOFLAGS=-mod=mod", "GOPROXY=off", "GOSUMDB=off", "GOTOOLCHAIN=local", "CGO_ENABLED=0")
	return env
}

func build(keep bool) (*built, error) {
	scratch, err := os.MkdirTemp("", "verif-scratch-")
	if err != nil {
		return nil, err
	}
	b := &built{scratch: scratch, keep: keep}
	repo := repoDir()
	var lastErr error
	for _, full := range []bool{true, false} {
		os.RemoveAll(filepath.Join(scratch, "src"))
		ov, st, err := instrument.Build(repo, scratch, filepath.Join(verifDir, "overlay_src"), instrument.Options{Full: full})
		if err != nil {
			lastErr = fmt.Errorf("instrumenter: %v", err)
			continue
		}
		b.stats = st
		mod, err := os.ReadFile(filepath.Join(verifDir, "go.mod"))
		if err != nil {
			return b, err
		}
		mod = bytes.Replace(mod, []byte("=> /repo"), []byte("=> "+repo), 1)
		if err := os.WriteFile(filepath.Join(scratch, "go.mod"), mod, 0o644); err != nil {
			return b, err
		}
		sum, _ := os.ReadFile(filepath.Join(verifDir, "go.sum"))
		os.WriteFile(filepath.Join(scratch, "go.sum"), sum, 0o644)
		b.worker = filepath.Join(scratch, "worker.test")
		cmd := exec.Command("go1.26.8", "test", "-c", "-tags", "verif", "-overlay", ov, "-vet=off",
			"-modfile", filepath.Join(scratch, "go.mod"), "-o", b.worker, "./sim")
		cmd.Dir = verifDir
		cmd.Env = goEnv()
		out, err := cmd.CombinedOutput()
		if err == nil {
			return b, nil
		}
		lastErr = fmt.Errorf("building the instrumented worker (%s instrumentation) failed: %v\n%s", st.Mode, err, out)
		fmt.Fprintln(os.Stderr, lastErr)
	}
	return b, lastErr
}

// ---------------------------------------------------------------------------
// workers

func runWorker(b *built, a sim.WorkerArgs, timeout time.Duration) (*sim.WorkerOut, string, error) {
	js, _ := json.Marshal(a)
	cmd := exec.Command(b.worker, "-test.run", "^TestWorker$", "-test.timeout", "0", "-test.cpu", "1")
	cmd.Env = append(os.Environ(), "VERIF_WORKER="+string(js), "GOMAXPROCS="+gomaxprocs())
	var stderr bytes.Buffer
	cmd.Stderr = &stderr
	cmd.Stdout = &stderr
	done := make(chan error, 1)
	if err := cmd.Start(); err != nil {
		return nil, "", err
	}
	go func() { done <- cmd.Wait() }()
	var err error
	select {
	case err = <-done:
	case <-time.After(timeout):
		cmd.Process.Kill()
		err = fmt.Errorf("worker killed after %v", timeout)
		<-done
	}
	tail := stderr.String()
	if len(tail) > 6000 {
		tail = tail[len(tail)-6000:]
	}
	raw, rerr := os.ReadFile(a.Out)
	if rerr != nil {
		if err == nil {
			err = rerr
		}
		return nil, tail, err
	}
	var out sim.WorkerOut
	if jerr := json.Unmarshal(raw, &out); jerr != nil {
		return nil, tail, jerr
	}
	return &out, tail, nil
}

func gomaxprocs() string {
	if v := os.Getenv("VERIF_GOMAXPROCS"); v != "" {
		return v
	}
	return "2"
}

type tierCfg struct {
	Runs  int     // total runs per batch
	WallS float64 // wall-clock cap per batch
}

func tierFor(prop, tier string) tierCfg {
	q := map[string]tierCfg{}
	t := map[string]tierCfg{}
	def := tierCfg{Runs: 16000, WallS: 45}
	defT := tierCfg{Runs: 2000000, WallS: 900}
	if tier == "thorough" {
		if c, ok := t[prop]; ok {
			return c
		}
		return defT
	}
	if c, ok := q[prop]; ok {
		return c
	}
	return def
}

type Finding struct {
	Property  string `json:"property"`
	Status    string `json:"status"` // open | fixed
	ID        string `json:"id"`
	Trigger   string `json:"trigger,omitempty"`
	Signature string `json:"signature,omitempty"` // prefix of "<prop>:<class>"
	Commit    string `json:"commit,omitempty"`
	What      string `json:"what"`
	Short     string `json:"short,omitempty"`
}

func (f Finding) line() string {
	if f.Short != "" {
		return f.Short
	}
	return f.What
}

func loadFindings() []Finding {
	var f struct {
		Findings []Finding `json:"findings"`
	}
	b, err := os.ReadFile(filepath.Join(verifDir, "known_findings.json"))
	if err != nil {
		return nil
	}
	if err := json.Unmarshal(b, &f); err != nil {
		fmt.Fprintln(os.Stderr, "known_findings.json:", err)
		os.Exit(2)
	}
	return f.Findings
}

type batchResult struct {
	Name       string
	Avoid      []string
	Outs       []*sim.WorkerOut
	Infra      []string
	Crashes    []string
	CrashRuns  []int
	Runs       int
	Nontrivial int
	Distinct   map[uint64]bool
	DistinctSc map[uint64]bool
	Faults     map[string]int
	Probes     map[string]int
	Strategies map[string]int
	Triggers   map[string]int
	Steps      int64
	MaxSteps   int
	SimNs      float64
	WallS      float64
	Violating  []*sim.RunResult
	Samples    []*sim.RunResult
	Recycled   int // worker processes replaced because of their memory
	MaxSysMB   int
	Seed       uint64
	Tier       string
}

func runBatch(b *built, prop, tier string, seed uint64, avoid []string, cfg tierCfg, name string) *batchResult {
	nw := runtime.NumCPU()
	if nw > 16 {
		nw = 16
	}
	if v := os.Getenv("VERIF_WORKERS"); v != "" {
		if n, err := strconv.Atoi(v); err == nil && n > 0 {
			nw = n
		}
	}
	br := &batchResult{Name: name, Avoid: avoid, Seed: seed, Tier: tier, Distinct: map[uint64]bool{}, DistinctSc: map[uint64]bool{}, Faults: map[string]int{}, Probes: map[string]int{}, Strategies: map[string]int{}, Triggers: map[string]int{}}
	start := time.Now()
	var mu sync.Mutex
	var wg sync.WaitGroup
	for i := 0; i < nw; i++ {
		wg.Add(1)
		go func(i int) {
			defer wg.Done()
			from := i
			gen := 0
			for attempt := 0; attempt < 4; {
				gen++
				a := sim.WorkerArgs{Prop: prop, Seed: seed, From: from, To: cfg.Runs, Stride: nw, Mode: "explore", Tier: tier, Avoid: avoid,
					Out: filepath.Join(b.scratch, fmt.Sprintf("out-%s-%d-%d.json", name, i, gen)), WallS: cfg.WallS - time.Since(start).Seconds(), Samples: 1, MaxViol: 6}
				if a.WallS < 1 {
					a.WallS = 1
				}
				out, tail, err := runWorker(b, a, time.Duration(cfg.WallS*float64(time.Second))+3*time.Minute)
				mu.Lock()
				if out != nil {
					br.Outs = append(br.Outs, out)
					if out.NextFrom > 0 {
						br.Recycled++
					}
					if out.SysMB > br.MaxSysMB {
						br.MaxSysMB = out.SysMB
					}
				}
				mu.Unlock()
				if err == nil {
					if out != nil && out.NextFrom > 0 && out.NextFrom < cfg.Runs && cfg.WallS-time.Since(start).Seconds() > 1 {
						// the worker gave up its process because of its memory: carry on in a fresh one
						from = out.NextFrom
						continue
					}
					return
				}
				attempt++
				// the worker died: find the run it was on and classify
				jb, _ := os.ReadFile(a.Out + ".journal")
				run, jerr := strconv.Atoi(strings.TrimSpace(string(jb)))
				mu.Lock()
				if jerr != nil {
					br.Infra = append(br.Infra, fmt.Sprintf("worker %d failed before its first run: %v\n%s", i, err, tail))
					mu.Unlock()
					return
				}
				br.Crashes = append(br.Crashes, fmt.Sprintf("run %d: %v\n%s", run, err, tail))
				br.CrashRuns = append(br.CrashRuns, run)
				mu.Unlock()
				from = run + nw
				if from >= cfg.Runs {
					return
				}
			}
		}(i)
	}
	wg.Wait()
	br.WallS = time.Since(start).Seconds()
	for _, o := range br.Outs {
		br.Runs += o.Runs
		br.Nontrivial += o.Nontrivial
		br.Steps += o.Steps
		if o.MaxRunSteps > br.MaxSteps {
			br.MaxSteps = o.MaxRunSteps
		}
		br.SimNs += o.SimNs
		for _, h := range o.Distinct {
			br.Distinct[h] = true
		}
		for _, h := range o.DistinctScen {
			br.DistinctSc[h] = true
		}
		for k, v := range o.Faults {
			br.Faults[k] += v
		}
		for k, v := range o.Probes {
			br.Probes[k] += v
		}
		for k, v := range o.Strategies {
			br.Strategies[k] += v
		}
		for k, v := range o.Triggers {
			br.Triggers[k] += v
		}
		br.Violating = append(br.Violating, o.Violating...)
		br.Samples = append(br.Samples, o.Samples...)
		br.Infra = append(br.Infra, o.Infra...)
	}
	sort.Slice(br.Violating, func(i, j int) bool { return br.Violating[i].Run < br.Violating[j].Run })
	sort.Slice(br.Samples, func(i, j int) bool { return br.Samples[i].Run < br.Samples[j].Run })
	return br
}

// ---------------------------------------------------------------------------
// check

type confirmed struct {
	Signature string
	Detail    string
	Replay    string
	Run       int
	Triggers  []string
	Known     *Finding
	ShrunkTo  [2]int
	Steps     int
}

func cmdCheck(args []string) int {
	if len(args) < 1 {
		usage()
	}
	prop := args[0]
	fs := flag.NewFlagSet("check", flag.ExitOnError)
	tier := fs.String("tier", "", "quick or thorough")
	runs := fs.Int("runs", 0, "override the number of runs per batch")
	wall := fs.Float64("wall", 0, "override the wall-clock cap per batch (s)")
	fs.Parse(args[1:])
	if *tier == "" {
		*tier = os.Getenv("VERIF_TIER")
	}
	if *tier == "" {
		*tier = "quick"
	}
	if !contains(sim.PropIDs, prop) {
		fmt.Fprintln(os.Stderr, "unknown property", prop)
		return 2
	}
	seed := seedEnv()
	fmt.Printf("verif check %s tier=%s VERIF_SEED=%d repo=%s\n", prop, *tier, seed, repoDir())
	start := time.Now()
	b, err := build(false)
	defer b.cleanup()
	if err != nil {
		fmt.Fprintln(os.Stderr, "BUILD FAILED (not a verdict):", err)
		return 2
	}
	buildS := time.Since(start).Seconds()
	cfg := tierFor(prop, *tier)
	if *runs > 0 {
		cfg.Runs = *runs
	}
	if *wall > 0 {
		cfg.WallS = *wall
	}

	findings := loadFindings()
	var open []Finding
	var avoid []string
	for _, f := range findings {
		if f.Property == prop && f.Status == "open" {
			open = append(open, f)
			if f.Trigger != "" {
				avoid = append(avoid, f.Trigger)
			}
		}
	}
	sort.Strings(avoid)

	batches := []*batchResult{runBatch(b, prop, *tier, seed, avoid, cfg, "A")}
	if len(open) > 0 {
		cfgB := cfg
		cfgB.Runs = cfg.Runs / 2
		cfgB.WallS = cfg.WallS / 2
		batches = append(batches, runBatch(b, prop, *tier, mixSeed(seed), nil, cfgB, "B"))
	}

	exit := 0
	var infra []string
	var confirmedV []confirmed
	var knownSeen = map[string]*confirmed{}
	secondary := 0
	for _, br := range batches {
		infra = append(infra, br.Infra...)
		// crashed workers: reproduce the crashing run alone
		for ci, c := range br.Crashes {
			// A worker process died. If the same run kills a fresh process again, and with a fatal
			// error of the Go runtime or an unrecovered panic, the code under test has crashed the
			// process: that is a violation (every property here includes "never crashes"), not a
			// problem of the machinery. Anything else (killed from outside, not reproducible) stays
			// without verdict.
			if ci < len(br.CrashRuns) && len(confirmedV) < 3 {
				if cv := confirmCrash(b, prop, br, br.CrashRuns[ci]); cv != nil {
					confirmedV = append(confirmedV, *cv)
					continue
				}
			}
			infra = append(infra, "worker crash: "+c)
		}
		bySig := map[string][]*sim.RunResult{}
		for _, r := range br.Violating {
			seen := map[string]bool{}
			for _, v := range r.Violations {
				s := v.Prop + ":" + v.Class
				if !seen[s] {
					seen[s] = true
					bySig[s] = append(bySig[s], r)
				}
			}
		}
		var sigs []string
		for s := range bySig {
			sigs = append(sigs, s)
		}
		sort.Strings(sigs)
		handled := 0
		for _, sig := range sigs {
			rs := bySig[sig]
			// known finding?
			var kf *Finding
			if br.Name == "B" {
				for i := range open {
					f := &open[i]
					if f.Signature != "" && matchesAny(sig, f.Signature) {
						// every run showing it must carry the trigger
						all := true
						for _, r := range rs {
							if f.Trigger != "" && !contains(r.Triggers, f.Trigger) {
								all = false
							}
						}
						if all {
							kf = f
						}
					}
				}
				// anything else found in this batch is a new violation, whether or not a
				// known trigger was present: only listed signatures are ever suppressed
			}
			if kf != nil {
				if knownSeen[kf.ID] != nil {
					continue
				}
			} else if handled >= 3 {
				continue
			}
			// choose the run with the shortest tape that still has its tape
			var pick *sim.RunResult
			for _, r := range rs {
				if r.Tape == nil {
					continue
				}
				if pick == nil || len(r.Tape.Gen)+len(r.Tape.Run) < len(pick.Tape.Gen)+len(pick.Tape.Run) {
					pick = r
				}
			}
			if pick == nil && len(rs) > 0 {
				// only the first few violating runs of a worker keep their tape: run this one again
				// (same seed, same index: same run) to get it
				a := sim.WorkerArgs{Prop: prop, Seed: br.Seed, From: rs[0].Run, To: rs[0].Run + 1, Stride: 1, Mode: "explore", Tier: br.Tier, Avoid: br.Avoid,
					Out: filepath.Join(b.scratch, fmt.Sprintf("rerun-%s-%d.json", br.Name, rs[0].Run)), WallS: 120, Samples: 0, MaxViol: 6}
				if out, _, err := runWorker(b, a, 5*time.Minute); err == nil && out != nil {
					for _, r := range out.Violating {
						if r.Tape != nil {
							for _, v := range r.Violations {
								if v.Prop+":"+v.Class == sig {
									pick = r
								}
							}
						}
					}
				}
			}
			if pick == nil {
				infra = append(infra, "violation without a tape: "+sig)
				continue
			}
			c, err := minimiseAndConfirm(b, prop, sig, pick, *tier)
			if err != nil {
				infra = append(infra, fmt.Sprintf("violation %s of run %d did not replay: %v", sig, pick.Run, err))
				continue
			}
			c.Known = kf
			if kf != nil {
				knownSeen[kf.ID] = c
			} else {
				handled++
				confirmedV = append(confirmedV, *c)
			}
		}
	}

	for _, f := range open {
		if c := knownSeen[f.ID]; c != nil {
			fmt.Printf("KNOWN-FINDING: property=%s %s [%s] replay=%s\n", prop, f.line(), f.ID, c.Replay)
		} else {
			fmt.Printf("KNOWN-FINDING: property=%s %s [%s] (listed; not re-observed in this run)\n", prop, f.line(), f.ID)
		}
	}
	for _, c := range confirmedV {
		fmt.Printf("VIOLATION property=%s replay=%s\n", prop, c.Replay)
		fmt.Printf("  class: %s\n  detail: %s\n  minimised to %d scenario + %d schedule choices, %d steps\n", c.Signature, firstLine(c.Detail), c.ShrunkTo[0], c.ShrunkTo[1], c.Steps)
		exit = 1
	}
	totalRuns := 0
	for _, br := range batches {
		totalRuns += br.Runs
	}
	if totalRuns == 0 {
		infra = append(infra, "no run completed")
	}
	// a check that cannot reach its property's preconditions has no verdict
	pre := 0
	nontriv := 0
	for _, br := range batches {
		pre += br.Probes["precondition_failed"]
		nontriv += br.Nontrivial
	}
	// ... nor has one whose scenario kinds are no longer all reached (a world that silently stopped
	// working would otherwise look clean)
	if len(batches) > 0 && len(batches[0].Outs) > 0 && batches[0].Runs >= 4000 {
		for _, pr := range batches[0].Outs[0].Meta.Reach {
			n := 0
			for _, br := range batches {
				n += br.Probes[pr]
			}
			if n == 0 {
				infra = append(infra, fmt.Sprintf("reach probe %q was never hit in %d runs: a part of the scenario space is no longer reached", pr, totalRuns))
			}
		}
	}
	if exit == 0 && totalRuns > 0 && nontriv*10 < totalRuns {
		infra = append(infra, fmt.Sprintf("only %d of %d runs reached the behaviour the property is about (precondition failed in %d)", nontriv, totalRuns, pre))
	}
	if len(infra) > 0 {
		for _, s := range infra {
			fmt.Fprintln(os.Stderr, "INFRA:", s)
		}
		if exit == 0 {
			exit = 2
		}
	}
	writeEvidence(prop, *tier, seed, b, batches, confirmedV, knownSeen, open, secondary, infra, time.Since(start).Seconds(), buildS)
	fmt.Printf("%s: %d runs (%d non-trivial), %d violation(s), %d known finding(s) listed, wall %.1fs, exit %d\n", prop, totalRuns, nontriv, len(confirmedV), len(open), time.Since(start).Seconds(), exit)
	return exit
}

// matchesAny: a finding lists one or more signature prefixes separated by '|'.
func matchesAny(sig, list string) bool {
	for _, p := range strings.Split(list, "|") {
		if p != "" && strings.HasPrefix(sig, p) {
			return true
		}
	}
	return false
}

func mixSeed(s uint64) uint64 { return s*0x9e3779b97f4a7c15 + 0x7f4a7c15 }

func contains(a []string, s string) bool {
	for _, x := range a {
		if x == s {
			return true
		}
	}
	return false
}

func firstLine(s string) string {
	if i := strings.IndexByte(s, '\n'); i >= 0 {
		return s[:i]
	}
	return s
}

type replayFile struct {
	Property  string          `json:"property"`
	Signature string          `json:"signature"`
	Detail    string          `json:"detail"`
	Engine    string          `json:"engine"`
	RepoTree  string          `json:"repo_tree"`
	LogHash   uint64          `json:"log_hash"`
	Tape      *sim.TapeRec    `json:"tape"`
	Scenario  json.RawMessage `json:"scenario"`
	Strategy  sim.Strategy    `json:"strategy"`
	Triggers  []string        `json:"triggers,omitempty"`
	Log       []string        `json:"event_log"`
	Note      string          `json:"note"`
	// Regenerate: for a run that kills the process there is no recorded tape; the run is a pure
	// function of (seed, property, run index, tier, avoided triggers) and is generated again.
	Regenerate *regen `json:"regenerate,omitempty"`
}

type regen struct {
	Seed  uint64   `json:"seed"`
	Run   int      `json:"run"`
	Tier  string   `json:"tier"`
	Avoid []string `json:"avoid,omitempty"`
}

func repoTree() string {
	out, err := exec.Command("git", "-C", repoDir(), "rev-parse", "HEAD").Output()
	if err != nil {
		return "unknown"
	}
	s := strings.TrimSpace(string(out))
	if st, _ := exec.Command("git", "-C", repoDir(), "status", "--porcelain").Output(); len(bytes.TrimSpace(st)) > 0 {
		s += "+dirty"
	}
	return s
}

// confirmCrash runs one run index alone in a fresh process (twice) and returns a confirmed
// violation if the process dies both times with a Go fatal error or panic.
func confirmCrash(b *built, prop string, br *batchResult, run int) *confirmed {
	var detail string
	for attempt := 0; attempt < 2; attempt++ {
		a := sim.WorkerArgs{Prop: prop, Seed: br.Seed, From: run, To: run + 1, Stride: 1, Mode: "explore", Tier: br.Tier, Avoid: br.Avoid,
			Out: filepath.Join(b.scratch, fmt.Sprintf("crash-%s-%d-%d.json", br.Name, run, attempt)), WallS: 120, Samples: 0, MaxViol: 6}
		out, tail, err := runWorker(b, a, 5*time.Minute)
		if err == nil && out != nil {
			return nil // did not die this time
		}
		i := strings.Index(tail, "fatal error:")
		if i < 0 {
			i = strings.Index(tail, "panic:")
		}
		if i < 0 {
			return nil // killed from outside, watchdog, ...: no verdict
		}
		d := tail[i:]
		if len(d) > 3000 {
			d = d[:3000]
		}
		detail = d
	}
	first := detail
	if k := strings.IndexByte(first, '\n'); k >= 0 {
		first = first[:k]
	}
	sig := prop + ":process-crash"
	rf := replayFile{Property: prop, Signature: sig, Detail: "the run kills the process: " + detail, Engine: sim.EngineVersion, RepoTree: repoTree(),
		Regenerate: &regen{Seed: br.Seed, Run: run, Tier: br.Tier, Avoid: br.Avoid},
		Note:       "no tape can be recorded for a run that kills its process; `bin/verif replay <this file>` generates the same run again (it is a pure function of seed, property, run index, tier and avoided triggers) in a fresh process and shows how it dies. Not minimised."}
	os.MkdirAll(filepath.Join(outDir(), "replays"), 0o755)
	path := filepath.Join(outDir(), "replays", fmt.Sprintf("%s-crash-%d-%d.json", prop, br.Seed, run))
	jb, _ := json.MarshalIndent(rf, "", " ")
	os.WriteFile(path, jb, 0o644)
	return &confirmed{Signature: sig, Detail: "the run kills the process: " + first, Replay: path, Run: run}
}

func minimiseAndConfirm(b *built, prop, sig string, r *sim.RunResult, tier string) (*confirmed, error) {
	tf := filepath.Join(b.scratch, fmt.Sprintf("tape-%d.json", r.Run))
	tb, _ := json.Marshal(r.Tape)
	os.WriteFile(tf, tb, 0o644)
	a := sim.WorkerArgs{Prop: prop, Mode: "shrink", TapeFile: tf, Out: filepath.Join(b.scratch, fmt.Sprintf("shrink-%d.json", r.Run)), Target: sig, WallS: 25, Tier: tier}
	out, tail, err := runWorker(b, a, 5*time.Minute)
	var res *sim.RunResult
	if err == nil && out != nil && out.Replayed != nil {
		res = out.Replayed
	} else {
		// shrinking itself failed (e.g. the violation is a process crash): fall back to the original tape
		res = r
		_ = tail
	}
	// write the replay file, then confirm it in a fresh process
	os.MkdirAll(filepath.Join(outDir(), "replays"), 0o755)
	name := fmt.Sprintf("%s-%d-%d.json", prop, r.Seed, r.Run)
	path := filepath.Join(outDir(), "replays", name)
	detail := ""
	for _, v := range res.Violations {
		if v.Prop+":"+v.Class == sig {
			detail = v.Detail
			break
		}
	}
	rf := replayFile{Property: prop, Signature: sig, Detail: detail, Engine: sim.EngineVersion, RepoTree: repoTree(), LogHash: res.LogHash, Tape: res.Tape,
		Scenario: res.Scenario, Strategy: res.Strategy, Triggers: res.Triggers, Log: res.Log,
		Note: "replay with: bin/verif replay " + path}
	jb, _ := json.MarshalIndent(rf, "", " ")
	if err := os.WriteFile(path, jb, 0o644); err != nil {
		return nil, err
	}
	ra := sim.WorkerArgs{Prop: prop, Mode: "replay", TapeFile: path, Out: filepath.Join(b.scratch, fmt.Sprintf("replay-%d.json", r.Run))}
	rout, rtail, err := runWorker(b, ra, 3*time.Minute)
	if err != nil || rout == nil || rout.Replayed == nil {
		return nil, fmt.Errorf("replay process failed: %v\n%s", err, rtail)
	}
	rr := rout.Replayed
	ok := false
	for _, v := range rr.Violations {
		if v.Prop+":"+v.Class == sig {
			ok = true
		}
	}
	if !ok {
		os.Remove(path)
		return nil, fmt.Errorf("fresh-process replay did not show %s (tape error: %q)", sig, rr.TapeErr)
	}
	if rr.LogHash != res.LogHash {
		os.Remove(path)
		return nil, fmt.Errorf("fresh-process replay shows %s but its event log differs (hash %x vs %x)", sig, rr.LogHash, res.LogHash)
	}
	return &confirmed{Signature: sig, Detail: detail, Replay: path, Run: r.Run, Triggers: res.Triggers, ShrunkTo: [2]int{len(res.Tape.Gen), len(res.Tape.Run)}, Steps: res.Steps}, nil
}

// ---------------------------------------------------------------------------
// replay

func cmdReplay(args []string) int {
	if len(args) < 1 {
		usage()
	}
	path := args[0]
	raw, err := os.ReadFile(path)
	if err != nil {
		fmt.Fprintln(os.Stderr, err)
		return 2
	}
	var rf replayFile
	if err := json.Unmarshal(raw, &rf); err != nil {
		fmt.Fprintln(os.Stderr, err)
		return 2
	}
	b, err := build(false)
	defer b.cleanup()
	if err != nil {
		fmt.Fprintln(os.Stderr, "BUILD FAILED:", err)
		return 2
	}
	if rf.Regenerate != nil {
		g := rf.Regenerate
		a := sim.WorkerArgs{Prop: rf.Property, Seed: g.Seed, From: g.Run, To: g.Run + 1, Stride: 1, Mode: "explore", Tier: g.Tier, Avoid: g.Avoid,
			Out: filepath.Join(b.scratch, "regen.json"), WallS: 120, Samples: 1, MaxViol: 6}
		out, tail, err := runWorker(b, a, 5*time.Minute)
		if err == nil && out != nil {
			fmt.Println("the run completed this time: the process did not die")
			return 0
		}
		fmt.Println(tail)
		if strings.Contains(tail, "fatal error:") || strings.Contains(tail, "panic:") {
			fmt.Printf("VIOLATION property=%s replay=%s\n", rf.Property, path)
			return 1
		}
		return 2
	}
	abs, _ := filepath.Abs(path)
	a := sim.WorkerArgs{Prop: rf.Property, Mode: "replay", TapeFile: abs, Out: filepath.Join(b.scratch, "replay.json")}
	out, tail, err := runWorker(b, a, 5*time.Minute)
	if err != nil || out == nil || out.Replayed == nil {
		fmt.Fprintf(os.Stderr, "replay failed: %v\n%s\n", err, tail)
		return 2
	}
	r := out.Replayed
	for _, l := range r.Log {
		fmt.Println(l)
	}
	if r.TapeErr != "" {
		fmt.Println("TAPE MISMATCH:", r.TapeErr)
	}
	same := false
	for _, v := range r.Violations {
		fmt.Printf("violation: %s:%s\n  %s\n", v.Prop, v.Class, v.Detail)
		if v.Prop+":"+v.Class == rf.Signature {
			same = true
		}
	}
	fmt.Printf("log hash %x (recorded %x)\n", r.LogHash, rf.LogHash)
	if same {
		fmt.Printf("VIOLATION property=%s replay=%s\n", rf.Property, path)
		if r.LogHash != rf.LogHash {
			fmt.Println("note: same violation, different event log than recorded (tree or engine changed)")
		}
		return 1
	}
	fmt.Println("the recorded violation did not reproduce on this tree")
	return 0
}

// ---------------------------------------------------------------------------
// evidence

func writeEvidence(prop, tier string, seed uint64, b *built, batches []*batchResult, conf []confirmed, known map[string]*confirmed, open []Finding, secondary int, infra []string, wallS, buildS float64) {
	var p sim.PropMeta
	for _, br := range batches {
		for _, o := range br.Outs {
			if o.Meta.Rule != "" {
				p = o.Meta
			}
		}
	}
	evals := 0
	distinct := map[uint64]bool{}
	distinctSc := map[uint64]bool{}
	faults := map[string]int{}
	probes := map[string]int{}
	strategies := map[string]int{}
	var steps int64
	var simNs float64
	var exploreWall float64
	var samples []interface{}
	batchInfo := []map[string]interface{}{}
	for _, br := range batches {
		evals += br.Runs
		steps += br.Steps
		simNs += br.SimNs
		exploreWall += br.WallS
		for h := range br.Distinct {
			distinct[h] = true
		}
		for h := range br.DistinctSc {
			distinctSc[h] = true
		}
		for k, v := range br.Faults {
			faults[k] += v
		}
		for k, v := range br.Probes {
			probes[k] += v
		}
		for k, v := range br.Strategies {
			strategies[k] += v
		}
		for i, s := range br.Samples {
			if i >= 2 {
				break
			}
			var scen interface{}
			json.Unmarshal(s.Scenario, &scen)
			lg := s.Log
			if len(lg) > 60 {
				lg = append(append([]string{}, lg[:60]...), fmt.Sprintf("… %d more events", len(s.Log)-60))
			}
			samples = append(samples, map[string]interface{}{"batch": br.Name, "run": s.Run, "run_seed": s.Seed, "scenario": scen, "strategy": s.Strategy, "steps": s.Steps, "sim_time_s": float64(s.SimNs) / 1e9, "faults": s.Faults, "event_log_head": lg})
		}
		batchInfo = append(batchInfo, map[string]interface{}{"name": br.Name, "avoided_known_triggers": br.Avoid, "runs": br.Runs, "non_trivial": br.Nontrivial, "wall_s": br.WallS, "violating_runs": len(br.Violating), "longest_run_steps": br.MaxSteps, "known_triggers_present_in_runs": br.Triggers, "worker_processes_recycled_for_memory": br.Recycled, "largest_worker_sys_mb": br.MaxSysMB})
	}
	faultFree := 0
	_ = faultFree
	perHour := 0.0
	if exploreWall > 0 {
		perHour = float64(evals) / exploreWall * 3600
	}
	var kf []map[string]interface{}
	for _, f := range open {
		m := map[string]interface{}{"id": f.ID, "what": f.What, "observed_in_this_run": known[f.ID] != nil}
		if c := known[f.ID]; c != nil {
			m["replay"] = c.Replay
		}
		kf = append(kf, m)
	}
	var vs []map[string]interface{}
	for _, c := range conf {
		vs = append(vs, map[string]interface{}{"signature": c.Signature, "detail": firstLine(c.Detail), "replay": c.Replay})
	}
	stuckProbes := []string{}
	for k, v := range probes {
		if v == 0 {
			stuckProbes = append(stuckProbes, k)
		}
	}
	cov := map[string]interface{}{
		"evaluations":                         evals,
		"distinct_nontrivial":                 len(distinct),
		"rule":                                p.Rule,
		"samples":                             samples,
		"exhaustive":                          false,
		"distinct_scenarios":                  len(distinctSc),
		"scheduler_steps":                     steps,
		"simulated_time_s":                    float64(simNs) / 1e9,
		"runs_per_hour":                       perHour,
		"seeds_per_hour":                      perHour,
		"fault_kinds_fired":                   faults,
		"reach_probes":                        probes,
		"strategies":                          strategies,
		"batches":                             batchInfo,
		"components_real":                     p.Real,
		"components_stub":                     p.Stub,
		"instrumentation":                     b.stats,
		"known_findings":                      kf,
		"secondary_effects_of_known_findings": secondary,
		"violations_confirmed":                vs,
		"infrastructure_problems":             infra,
		"build_s":                             buildS,
		"repo_tree":                           repoTree(),
		"engine":                              sim.EngineVersion,
	}
	ev := map[string]interface{}{
		"property_id": prop,
		"tier":        tier,
		"seed":        int64(seed & 0x7fffffffffffffff),
		"level":       "exploration",
		"coverage":    cov,
		"assumptions": []string{
			"seeded sampling of schedules and fault sequences: a clean batch is evidence, not proof",
			"interleavings are explored at statement granularity of the instrumented files (package xmpp, stanza/stream_management.go); races inside one statement or inside the uninstrumented codec are not",
			"the simulated network offers only what TCP/TLS can do (in-order, loss-free streams; FIN/RST/stall/segmentation/write failure); the scripted server is a model written for this harness",
			"sync.RWMutex is replaced by a scheduler-aware shim with sync's semantics; clock and timers are testing/synctest's fake clock",
		},
		"wall_s":     wallS,
		"violations": len(conf),
	}
	os.MkdirAll(filepath.Join(outDir(), "evidence"), 0o755)
	jb, _ := json.MarshalIndent(ev, "", " ")
	os.WriteFile(filepath.Join(outDir(), "evidence", prop+".json"), jb, 0o644)
}

// ---------------------------------------------------------------------------
// selftest determinism

func cmdSelftest(args []string) int {
	if len(args) < 1 || args[0] != "determinism" {
		usage()
	}
	fs := flag.NewFlagSet("determinism", flag.ExitOnError)
	props := fs.String("props", "", "comma separated (default: all)")
	seeds := fs.Int("runs", 200, "runs per property")
	procs := fs.Int("procs", 4, "fresh processes per GOMAXPROCS setting")
	fs.Parse(args[1:])
	b, err := build(false)
	defer b.cleanup()
	if err != nil {
		fmt.Fprintln(os.Stderr, "BUILD FAILED:", err)
		return 2
	}
	var ids []string
	if *props != "" {
		ids = strings.Split(*props, ",")
	} else {
		ids = append(ids, sim.PropIDs...)
	}
	sort.Strings(ids)
	bad := 0
	seed := seedEnv()
	for _, id := range ids {
		type key struct {
			gmp string
			k   int
		}
		results := map[key]map[string]uint64{}
		var mu sync.Mutex
		var wg sync.WaitGroup
		sem := make(chan struct{}, 16)
		for _, gmp := range []string{"1", "4", "16"} {
			for k := 0; k < *procs; k++ {
				wg.Add(1)
				go func(gmp string, k int) {
					defer wg.Done()
					sem <- struct{}{}
					defer func() { <-sem }()
					a := sim.WorkerArgs{Prop: id, Seed: seed, From: 0, To: *seeds, Stride: 1, Mode: "determinism", Tier: "quick",
						Out: filepath.Join(b.scratch, fmt.Sprintf("det-%s-%s-%d.json", id, gmp, k))}
					js, _ := json.Marshal(a)
					cmd := exec.Command(b.worker, "-test.run", "^TestWorker$", "-test.timeout", "0")
					cmd.Env = append(os.Environ(), "VERIF_WORKER="+string(js), "GOMAXPROCS="+gmp)
					if out, err := cmd.CombinedOutput(); err != nil {
						fmt.Fprintf(os.Stderr, "%s gomaxprocs=%s: %v\n%s\n", id, gmp, err, out)
						return
					}
					raw, _ := os.ReadFile(a.Out)
					var o sim.WorkerOut
					json.Unmarshal(raw, &o)
					mu.Lock()
					results[key{gmp, k}] = o.Hashes
					mu.Unlock()
				}(gmp, k)
			}
		}
		wg.Wait()
		var ref map[string]uint64
		diff := map[string]bool{}
		n := 0
		for _, h := range results {
			n++
			if ref == nil {
				ref = h
				continue
			}
			for r, v := range ref {
				if h[r] != v {
					diff[r] = true
				}
			}
			if len(h) != len(ref) {
				diff["(count)"] = true
			}
		}
		if n != 3**procs {
			fmt.Printf("%s: only %d of %d processes finished\n", id, n, 3**procs)
			bad++
		}
		if len(diff) > 0 {
			var ds []string
			for r := range diff {
				ds = append(ds, r)
			}
			sort.Strings(ds)
			if len(ds) > 20 {
				ds = ds[:20]
			}
			fmt.Printf("%s: NONDETERMINISTIC runs %v (of %d) across %d processes\n", id, ds, len(ref), n)
			bad++
		} else {
			fmt.Printf("%s: %d runs x %d processes (GOMAXPROCS 1/4/16): identical event-log digests\n", id, len(ref), n)
		}
	}
	if bad > 0 {
		return 2
	}
	return 0
}
